#define CANARY __CPROVER_assert(0, "VACUITY-CANARY")
void h_AB_ctor_ptr(void) { struct AB *s; unsigned char *a; size_t n; _Bool c; AB__ctor__unsigned_char_ptr_unsigned_long_Bool(s, a, n, c); CANARY; }
void h_AB_ctor_list(void) { struct AB *s; struct std_initializer_list_unsigned_char l; AB__ctor__std_initializer_list_unsigned_char(s, l); CANARY; }
void h_AB_ctor_size(void) { struct AB *s; size_t n; AB__ctor__unsigned_long(s, n); CANARY; }
void h_AB_ctor_fill(void) { struct AB *s; size_t n; unsigned char *v; AB__ctor__unsigned_long_unsigned_char_ref(s, n, v); CANARY; }
void h_AB_ctor_copy(void) { struct AB *s, *o; AB__ctor_copy(s, o); CANARY; }
void h_AB_ctor_move(void) { struct AB *s, *o; AB__ctor_move(s, o); CANARY; }
void h_AB_dtor(void) { struct AB *s; AB__dtor(s); CANARY; }
void h_AB_assign_copy(void) { struct AB *s, *o; AB__assign_copy(s, o); CANARY; }
void h_AB_assign_move(void) { struct AB *s, *o; AB__assign_move(s, o); CANARY; }
void h_AB_resize(void) { struct AB *s; size_t n; AB__resize__unsigned_long(s, n); CANARY; }
void h_AB_resize_fill(void) { struct AB *s; size_t n; unsigned char *v; AB__resize__unsigned_long_unsigned_char_ref(s, n, v); CANARY; }
void h_AB_op_index(void) { struct AB *s; size_t i; AB__op_index__unsigned_long(s, i); CANARY; }
void h_AB_size(void) { struct AB *s; AB__size(s); CANARY; }
void h_AB_array(void) { struct AB *s; AB__array(s); CANARY; }
