/* C11 harnesses: each operation of ConcurrentSubjectRouter, lowered from the real header, is run once from "no lock held";
 * the obligations are the access-kind assertions in the SubjectRouter / Resource contracts. */
#define CANARY __CPROVER_assert(0, "VACUITY-CANARY")
static struct CSR *mk(void) { struct CSR *c = malloc(sizeof(*c)); __CPROVER_assume(c != 0); g_res = &c->m_resource; g_router = &c->m_router; g_access = A_NONE; g_inner_calls = 0; g_lock_calls = 0; g_unlock_calls = 0; g_sub_ctor_calls = 0; return c; }
static void done(void) {
  __CPROVER_assert(g_access == A_NONE && g_lock_calls == 1 && g_unlock_calls == 1, "C11 the lock taken is released on every exit, exactly once");
  __CPROVER_assert(g_inner_calls == 1, "C11 the wrapped router operation is performed exactly once, inside the locked region"); }
#define PASSED(cond) __CPROVER_assert(cond, "C06/C11 the wrapped router operation receives the key and arguments that were passed and its answer is returned")
void h_CSR_notify0(void) { struct CSR *c = mk(); struct RKey k; size_t r = CSR__notify_T_(c, &k); done(); PASSED(g_key_seen == &k && r == g_ret_inner); CANARY; }
void h_CSR_notify1(void) { struct CSR *c = mk(); struct RKey k; int v; size_t r = CSR__notify_T_int_ref(c, &k, &v); done(); PASSED(g_key_seen == &k && g_arg_seen == &v && r == g_ret_inner); CANARY; }
void h_CSR_exists(void) { struct CSR *c = mk(); struct RKey k; _Bool r = CSR__exists(c, &k); done(); PASSED(g_key_seen == &k && r == g_bret_inner); CANARY; }
void h_CSR_depth(void) { struct CSR *c = mk(); size_t r = CSR__depth(c); done(); PASSED(r == g_ret_inner); CANARY; }
void h_CSR_shrink(void) { struct CSR *c = mk(); struct RKey k; CSR__shrink(c, &k); done(); PASSED(g_key_seen == &k); CANARY; }
void h_CSR_subscribe0(void) { struct CSR *c = mk(); struct RKey k; struct closure_tulz_verif_inst__use_1 o; struct USub r; CSR__subscribe_T__lambda_csr_cpp_L6(c, &k, &o, &r); done(); __CPROVER_assert(g_sub_ctor_calls == 1, "C11 subscribe returns a handle bound to this router"); CANARY; }
void h_CSR_subscribe1(void) { struct CSR *c = mk(); struct RKey k; struct closure_tulz_verif_inst__use_2 o; struct USub r; CSR__subscribe_T_int_lambda_csr_cpp_L7(c, &k, &o, &r); done(); __CPROVER_assert(g_sub_ctor_calls == 1, "C11 subscribe returns a handle bound to this router"); CANARY; }
void h_CSR_unsubscribe0(void) { struct CSR *c = mk(); struct CInv0 *i = malloc(sizeof(*i)); __CPROVER_assume(i != 0); i->m_resource = g_res; CInv0__unsubscribe(i); done(); CANARY; }
void h_CSR_unsubscribe1(void) { struct CSR *c = mk(); struct CInv1 *i = malloc(sizeof(*i)); __CPROVER_assume(i != 0); i->m_resource = g_res; CInv1__unsubscribe(i); done(); CANARY; }
