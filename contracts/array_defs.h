/* Abbreviations used by contracts/array.spec */
#ifndef ARR_DEFS_H
#define ARR_DEFS_H
#define LEN_MAX ((size_t)1 << 30)
size_t g_size0; uint32_t g_wser; size_t g_j; uint32_t g_kser;   /* g_k is declared in specs/rb_prelude.h */
#define OBJ(p) __CPROVER_POINTER_OBJECT(p)
#define ESZ sizeof(struct Elem)
/* a well-formed array object: owns exactly m_size elements (or nothing) */
#define ARR_OK(s) (__CPROVER_is_fresh(s, sizeof(*(s))) && (s)->m_size <= LEN_MAX && \
                   (((s)->m_size == 0 && (s)->m_array == 0) || __CPROVER_is_fresh((s)->m_array, (s)->m_size * ESZ)))
/* every element is alive: instantiated at the watched slot and at g_k */
#define ARR_LIVE(s) (((g_wobj == OBJ((s)->m_array) && g_wp < (s)->m_size) ==> (s)->m_array[g_wp].life == LIVE) && \
                     ((g_k < (s)->m_size) ==> (s)->m_array[g_k].life == LIVE))
#define WATCHES(s) ((s)->m_array != 0 && g_wobj == OBJ((s)->m_array))
#define CNT_BOUND (g_dtor_calls < 16 && g_ctor_calls < 16 && g_asgn_calls < 16 && g_allocs < 16 && g_frees < 16 && g_reallocs < 16 && g_reloc_count < 16)
#define CNT_SMALL (g_dtor_calls < 4 && g_ctor_calls < 4 && g_asgn_calls < 4 && g_allocs < 4 && g_frees < 4 && g_reallocs < 4 && g_reloc_count < 4)
#define CNT_BOUND8 (g_dtor_calls < 8 && g_ctor_calls < 8 && g_asgn_calls < 8 && g_allocs < 8 && g_frees < 8 && g_reallocs < 8 && g_reloc_count < 8)
#define MINZ(a, b) ((a) < (b) ? (a) : (b))
#endif
