/* C20 harnesses: the callable / Runnable are stubs that record how they are invoked; the stored closure is run either
 * inside the std::thread constructor (new thread scheduled at once) or after start() has returned and the starter's
 * frame is gone (new thread scheduled late).  CBMC's dead-object checks see everything the closure dereferences. */
#define CANARY __CPROVER_assert(0, "VACUITY-CANARY")
static void run_stored(void) {
  __CPROVER_assert(!g_ran, "C20 the thread function is invoked once");
  g_ran = 1;
  if (g_kind == K_FP) closure_Thread__start_T_fn_ptr_int_ref_1__call(&g_stored_fp);
  else if (g_kind == K_BIG) closure_Thread__start_T_BigCallable_int_ref_1__call(&g_stored_big);
  else if (g_kind == K_RUNNABLE) closure_Thread__start_1__call(&g_stored_runnable);
}
void tulz_verif_inst__plain_function(int *x) { g_calls++; g_call_arg = x; g_finished_at_call = FLAG(g_thread); }
void BigCallable__op_call(struct BigCallable *self, int *x) {
  g_calls++; g_call_arg = x; g_finished_at_call = FLAG(g_thread);
  g_payload_ok = (self->payload[0] == g_payload0 && self->payload[7] == g_payload7);     /* reads the callable object */
}
void tulz_Runnable__run__virtual(struct tulz_Runnable *r) { g_run_calls++; g_deleted_before_run = (g_delete_calls > 0); g_finished_at_run = FLAG(g_thread); }
void tulz_Runnable__delete(struct tulz_Runnable *r) { __CPROVER_assert(g_run_calls == 1, "C20 the Runnable is destroyed only after it ran"); g_delete_calls++; free(r); }
static struct Thread *mkthread(void) { struct Thread *t = malloc(sizeof(*t)); __CPROVER_assume(t != 0); t->m_thread.id = 0; FLAG(t) = 0; g_thread = t; g_calls = 0; g_run_calls = 0; g_delete_calls = 0; g_next_thread_id = 0; return t; }
static void check_callable(struct Thread *t, int *x) {
  __CPROVER_assert(g_calls == 1, "C20 the callable is invoked exactly once");
  __CPROVER_assert(g_call_arg == x, "C20 the callable receives the caller's lvalue argument");
  __CPROVER_assert(!g_finished_at_call, "C20 isFinished() is false while the callable runs");
  __CPROVER_assert(FLAG(t), "C20 isFinished() is true after the callable returned");
}
static void starter_fp(struct Thread *t, int *x) { Thread__start_T_fn_ptr_int_ref(t, tulz_verif_inst__plain_function, x); }
static void starter_big(struct Thread *t, int *x) { struct BigCallable b; b.payload[0] = g_payload0; b.payload[7] = g_payload7; Thread__start_T_BigCallable_int_ref(t, b, x); }
void h_Thread_start_fp_early(void) { struct Thread *t = mkthread(); int x; g_early = 1; starter_fp(t, &x); check_callable(t, &x); Thread__join(t); __CPROVER_assert(g_calls == 1, "C20 join does not run it again"); CANARY; }
void h_Thread_start_fp_late(void) {
  struct Thread *t = mkthread(); int x; g_early = 0;
  starter_fp(t, &x);                                   /* start() has returned; its frame is gone */
  __CPROVER_assert(g_calls == 0 && !FLAG(t), "C20 isFinished() is false before the callable ran");
  run_stored(); check_callable(t, &x); CANARY; }
void h_Thread_start_big_early(void) { struct Thread *t = mkthread(); int x; g_early = 1; starter_big(t, &x); check_callable(t, &x); __CPROVER_assert(g_payload_ok, "C20 the callable object invoked is a live copy"); CANARY; }
void h_Thread_start_big_late(void) {
  struct Thread *t = mkthread(); int x; g_early = 0;
  starter_big(t, &x);                                  /* the starter's BigCallable and start()'s parameter are gone */
  run_stored(); check_callable(t, &x); __CPROVER_assert(g_payload_ok, "C20 the callable object invoked is a live copy"); CANARY; }
void h_Thread_join_waits(void) {
  struct Thread *t = mkthread(); int x; g_early = 0;
  starter_fp(t, &x); Thread__join(t);
  __CPROVER_assert(g_calls == 1 && FLAG(t), "C20 join() returns only after the callable has returned"); CANARY; }
void h_Thread_start_runnable(void) {
  struct Thread *t = mkthread(); struct tulz_Runnable *r = malloc(sizeof(*r)); __CPROVER_assume(r != 0); _Bool e; g_early = e;
  Thread__start(t, r);
  if (!g_early) { __CPROVER_assert(!FLAG(t), "C20 isFinished() is false before the Runnable ran"); run_stored(); }
  __CPROVER_assert(g_run_calls == 1 && g_delete_calls == 1 && !g_deleted_before_run && !g_finished_at_run && FLAG(t),
                   "C20 a Runnable is run once, then destroyed once, then the thread reports completion"); CANARY; }
void h_Thread_accessors(void) {
  struct Thread *t = mkthread(); _Bool f; FLAG(t) = f;
  __CPROVER_assert(Thread__isFinished(t) == f && Thread__isRunning(t) == !f && Thread__std_thread(t) == &t->m_thread, "C20 accessors report the completion flag");
  __CPROVER_assert(Thread__isJoinable(t) == 0, "C20 a thread that was never started is not joinable"); CANARY; }
