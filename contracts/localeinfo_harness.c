#define CANARY __CPROVER_assert(0, "VACUITY-CANARY")
void h_LI_get(void) { char *s; struct LInfo *r; LI__get(s, r); CANARY; }
