/* harnesses for the monitor proofs: one atomic-section sequence (= one call of lock()/unlock()) from an arbitrary
 * state satisfying the invariant; roles: the acting thread owns the watched ticket (g_me) or not */
#define CANARY __CPROVER_assert(0, "VACUITY-CANARY")
static struct Res *mk(void) {
  size_t qc; __CPROVER_assume(qc >= 1 && qc <= QMAXMAX); g_qcap = qc;
  struct Res *r = malloc(sizeof(*r)); __CPROVER_assume(r != 0);
  r->m_queue.items = malloc(QMAX * sizeof(struct ResOp)); __CPROVER_assume(r->m_queue.items != 0);
  g_self = r; g_mheld = 0; return r;
}
static void after(void) { __CPROVER_assert(!g_mheld, "C15 the mutex is released when the operation returns"); __CPROVER_assert(!g_notify_pending, "C02 every admission is followed by a notification before the function returns"); }
void h_Res_lock_read_other(void) { struct Res *r = mk(); g_me = 0; g_mode = 0; g_myType = OP_READ; g_waited = 0; Res__lock(r, OP_READ); after(); CANARY; }
void h_Res_lock_read_owner(void) { struct Res *r = mk(); g_me = 1; g_mode = 0; g_myType = OP_READ; g_waited = 0; Res__lock(r, OP_READ); after(); CANARY; }
void h_Res_lock_write_other(void) { struct Res *r = mk(); g_me = 0; g_mode = 0; g_myType = OP_WRITE; g_waited = 0; Res__lock(r, OP_WRITE); after(); CANARY; }
void h_Res_lock_write_owner(void) { struct Res *r = mk(); g_me = 1; g_mode = 0; g_myType = OP_WRITE; g_waited = 0; Res__lock(r, OP_WRITE); after(); CANARY; }
void h_Res_unlock_read(void) { struct Res *r = mk(); g_me = 0; g_mode = 1; g_myType = OP_READ; Res__unlock(r, OP_READ); after(); CANARY; }
void h_Res_unlock_write(void) { struct Res *r = mk(); g_me = 0; g_mode = 1; g_myType = OP_WRITE; Res__unlock(r, OP_WRITE); after(); CANARY; }
/* the public entry points and the guards delegate to lock()/unlock() with the matching kind on the same resource */
void h_Res_lockRead(void) { struct Res *r; Res__lockRead(r); CANARY; }
void h_Res_lockWrite(void) { struct Res *r; Res__lockWrite(r); CANARY; }
void h_Res_unlockRead(void) { struct Res *r; Res__unlockRead(r); CANARY; }
void h_Res_unlockWrite(void) { struct Res *r; Res__unlockWrite(r); CANARY; }
void h_RLock_ctor(void) { struct RLock *l; struct Res *r; RLock__ctor(l, r); CANARY; }
void h_RLock_dtor(void) { struct RLock *l; RLock__dtor(l); CANARY; }
void h_WLock_ctor(void) { struct WLock *l; struct Res *r; WLock__ctor(l, r); CANARY; }
void h_WLock_dtor(void) { struct WLock *l; WLock__dtor(l); CANARY; }
