#define CANARY __CPROVER_assert(0, "VACUITY-CANARY")
void h_AE_destroy(void) { struct AE *s; size_t b, e; AE__destroy(s, b, e); CANARY; }
void h_AE_initialize(void) { struct AE *s; size_t b, e; AE__initialize(s, b, e); CANARY; }
void h_AE_swap(void) { struct AE *a, *b; AE__swap(a, b); CANARY; }
void h_AE_size(void) { struct AE *s; AE__size(s); CANARY; }
void h_AE_empty(void) { struct AE *s; AE__empty(s); CANARY; }
void h_AE_array(void) { struct AE *s; AE__array(s); CANARY; }
void h_AE_op_index(void) { struct AE *s; size_t i; AE__op_index__unsigned_long(s, i); CANARY; }
void h_AE_op_index_c(void) { struct AE *s; size_t i; AE__op_index__unsigned_long_const(s, i); CANARY; }
void h_AE_front(void) { struct AE *s; AE__front(s); CANARY; }
void h_AE_back(void) { struct AE *s; AE__back(s); CANARY; }
void h_AE_ctor_ptr(void) { struct AE *s; struct Elem *a; size_t n; _Bool c; AE__ctor__Elem_ptr_unsigned_long_Bool(s, a, n, c); CANARY; }
void h_AE_ctor_list(void) { struct AE *s; struct std_initializer_list_Elem l; AE__ctor__std_initializer_list_Elem(s, l); CANARY; }
void h_AE_ctor_size(void) { struct AE *s; size_t n; AE__ctor__unsigned_long(s, n); CANARY; }
void h_AE_ctor_fill(void) { struct AE *s; size_t n; struct Elem *v; AE__ctor__unsigned_long_Elem_ref(s, n, v); CANARY; }
void h_AE_ctor_copy(void) { struct AE *s, *o; AE__ctor_copy(s, o); CANARY; }
void h_AE_ctor_move(void) { struct AE *s, *o; AE__ctor_move(s, o); CANARY; }
void h_AE_dtor(void) { struct AE *s; AE__dtor(s); CANARY; }
void h_AE_assign_copy(void) { struct AE *s, *o; AE__assign_copy(s, o); CANARY; }
void h_AE_assign_move(void) { struct AE *s, *o; AE__assign_move(s, o); CANARY; }
void h_AE_resize(void) { struct AE *s; size_t n; AE__resize__unsigned_long(s, n); CANARY; }
void h_AE_resize_fill(void) { struct AE *s; size_t n; struct Elem *v; AE__resize__unsigned_long_Elem_ref(s, n, v); CANARY; }
