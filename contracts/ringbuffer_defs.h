/* Abbreviations used by contracts/ringbuffer.spec (pure macros over the lowered field names). */
#ifndef RB_DEFS_H
#define RB_DEFS_H
/* ghost constants: pre-state bound in `requires` (no ?: inside __CPROVER_old) */
ssize_t g_pos0; size_t g_size0, g_cap0;
size_t g_wl;          /* logical index of the watched physical slot in the pre-state (>= size: dead slot) */
uint32_t g_wser;      /* serial stored in the watched slot in the pre-state */
/* g_k (arbitrary logical index) is declared in specs/rb_prelude.h */
uint32_t g_popser;    /* serial of the element a pop removes (pre-state) */

#define OBJ(p) __CPROVER_POINTER_OBJECT(p)
/* the receiver is a well-formed ring buffer owning one allocation */
#define RB_FRESH(s) (__CPROVER_is_fresh(s, sizeof(*(s))) && WF(s) && \
                     __CPROVER_is_fresh((s)->m_data, (s)->m_capacity * sizeof(struct Elem)))
/* watched slot of the receiver + slot invariant instantiated there + pre-state constants */
#define RB_WATCH(s) (g_wobj == OBJ((s)->m_data) && g_wp < (s)->m_capacity && \
    g_dtor_calls == 0 && g_ctor_calls == 0 && g_asgn_calls == 0 && !g_reloc && g_reloc_count == 0 && !g_freed_w && \
    g_allocs == 0 && g_frees == 0 && g_reallocs == 0 && !g_watch_new && \
    g_pos0 == (s)->m_pos && g_size0 == (s)->m_size && g_cap0 == (s)->m_capacity && \
    g_wl == LOGI((s)->m_pos, g_wp, (s)->m_capacity) && g_wser == (s)->m_data[g_wp].serial && \
    SLOT_INV(s))
/* slot invariant at the watched slot: inside the logical range <=> holds a live element */
#define SLOT_INV(s) (LOGI((s)->m_pos, g_wp, (s)->m_capacity) < (s)->m_size ? (s)->m_data[g_wp].life == LIVE \
                                                                              : (s)->m_data[g_wp].life != LIVE)
#define ELEM_AT(s, k) ((s)->m_data[PHYS((s)->m_pos, k, (s)->m_capacity)])
#define RB_ASSIGNS_INPLACE(s) (s)->m_pos, (s)->m_size, __CPROVER_object_whole((s)->m_data), GHOST_ELEM
/* a receiver that is raw storage about to be constructed; the watched slot is in the buffer it will allocate */
#define RB_GHOST_ZERO (g_dtor_calls == 0 && g_ctor_calls == 0 && g_asgn_calls == 0 && !g_reloc && g_reloc_count == 0 && \
                       !g_freed_w && g_allocs == 0 && g_frees == 0 && g_reallocs == 0)
#define RB_NEW_WATCH (g_watch_new && g_np == g_wp && g_dtor_calls == 0 && g_ctor_calls == 0 && g_asgn_calls == 0 && !g_reloc && \
                      g_reloc_count == 0 && !g_freed_w && g_allocs == 0 && g_frees == 0 && g_reallocs == 0)
/* moved-from state: owns nothing; only destruction and assignment-to are valid */
#define RB_HOLLOW(s) ((s)->m_capacity == 0 && (s)->m_size == 0 && (s)->m_data == 0)
/* physical index of the last element as resize computes it, and the condition of its "just reallocate" branch */
#define LASTIDX(s) ((s)->m_size == 0 ? ((s)->m_pos == 0 ? SCAP(s) - 1 : (s)->m_pos - 1) : PHYS((s)->m_pos, (s)->m_size - 1, (s)->m_capacity))
#define BR_REALLOC(s, n) ((s)->m_pos <= LASTIDX(s) && (size_t)LASTIDX(s) < (n))
#define MINZ(a, b) ((a) < (b) ? (a) : (b))
#define NO_ALLOC (g_allocs == 0 && g_frees == 0 && !g_freed_w)

size_t g_eq_witness;   /* index at which the std::equal model found a mismatch */
uint32_t g_kser;
int g_case;           /* proof case selector (harness-chosen) */
ssize_t g_a_pos, g_b_pos; size_t g_a_size, g_b_size, g_a_cap, g_b_cap, g_a_data, g_b_data;
#endif
