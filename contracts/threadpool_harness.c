/* ThreadPool harnesses: each public operation is run once by the owner role from an arbitrary well-formed pool state
 * with no lock held; PooledRunnable::run is run by the worker role (one arbitrary iteration through its loop contract). */
#define CANARY __CPROVER_assert(0, "VACUITY-CANARY")
static struct TP *mkpool(void) {
  size_t c; __CPROVER_assume(c >= 1 && c <= LCAP_MAX); g_lcap = c;
  struct TP *p = malloc(sizeof(*p)); __CPROVER_assume(p != 0);
  p->m_pool.items = malloc(g_lcap * sizeof(struct Thread *)); __CPROVER_assume(p->m_pool.items != 0);
  p->m_queue.items = malloc(g_lcap * sizeof(struct Runnable *)); __CPROVER_assume(p->m_queue.items != 0);
  __CPROVER_assume(p->m_pool.len <= g_lcap && p->m_queue.head <= g_lcap && p->m_queue.len <= g_lcap - p->m_queue.head);
  g_tp = p; g_held_queue = 0; g_held_pool = 0; g_notifies = 0; g_starts = 0;
  g_wthread_joins = 0; g_wthread_deletes = 0; g_wtask_runs = 0; g_wtask_deletes = 0; g_taken = 0; g_taken_runs = 0; g_taken_deletes = 0; g_read_valid = 0;
  /* the watched thread / task are the ones at the watched positions; list entries are pairwise distinct objects */
  g_wthread = (g_wi < p->m_pool.len) ? p->m_pool.items[g_wi] : 0;
  g_wtask = (g_wq < p->m_queue.len) ? p->m_queue.items[p->m_queue.head + g_wq] : 0;
  return p;
}
static void quiet(void) { __CPROVER_assert(!g_held_queue && !g_held_pool, "C15 every pool mutex taken by the operation is released when it returns"); }
void h_TP_start(void) {
  struct TP *p = mkpool(); g_role = ROLE_OWNER; struct Runnable *r = malloc(sizeof(*r)); __CPROVER_assume(r != 0);
  __CPROVER_assume(p->m_maxThreadCount >= 1); size_t before = p->m_pool.len; size_t qbefore = p->m_queue.len;
  TP__start(p, r); quiet();
  __CPROVER_assert(g_notifies >= 1, "C08 a submission is followed by a notification");
  __CPROVER_assert(TP_FLAG(p), "C08 start() re-arms a stopped pool");
  __CPROVER_assert(p->m_queue.len == qbefore + 1 && p->m_queue.items[p->m_queue.head + qbefore] == r, "C07 the task is appended at the back of the queue");
  __CPROVER_assert(p->m_pool.len == before || (p->m_pool.len == before + 1 && before < (size_t)p->m_maxThreadCount && g_starts == 1), "C08 the number of worker threads never exceeds the configured maximum");
  CANARY; }
void h_TP_stop(void) {
  struct TP *p = mkpool(); g_role = ROLE_OWNER; g_workers_exist = 1;
  __CPROVER_assume(g_wthread == 0 || g_wi < p->m_pool.len);
  TP__stop(p); quiet();
  __CPROVER_assert(!TP_FLAG(p) && p->m_pool.len == 0 && p->m_queue.len == 0, "C08 stop() leaves no worker, no queued task and the flag cleared");
  __CPROVER_assert(g_notifies >= 1, "C08 clearing the flag is followed by notify_all");
  CANARY; }
void h_TP_clear(void) { struct TP *p = mkpool(); g_role = ROLE_OWNER; _Bool w; g_workers_exist = w; size_t q0 = p->m_queue.len; TP__clear(p); quiet();
  __CPROVER_assert(p->m_queue.len == 0, "C07 clear() empties the queue");
  __CPROVER_assert(g_wtask_deletes == (g_wq < q0 ? 1 : 0) && g_wtask_runs == 0, "C07 clear() destroys every queued task exactly once and runs none"); CANARY; }
void h_TP_update(void) { struct TP *p = mkpool(); g_role = ROLE_OWNER; _Bool w; g_workers_exist = w; TP__update(p); quiet(); CANARY; }
void h_TP_getters(void) { struct TP *p = mkpool(); g_role = ROLE_OWNER; _Bool w; g_workers_exist = w;
  (void)TP__getExpiryTimeout(p); (void)TP__getMaxThreadCount(p); (void)TP__getActiveThreadCount(p); (void)TP__getThreadCount(p); (void)TP__isRunning(p); quiet(); CANARY; }
void h_PRun_run(void) {
  struct TP *p = mkpool(); g_role = ROLE_WORKER; g_workers_exist = 1;
  struct PThread *pt = malloc(sizeof(*pt)); __CPROVER_assume(pt != 0); g_my_pthread = pt; __CPROVER_assume(pt->m_lastActiveTime >= 0 && pt->m_lastActiveTime < ((long)1 << 62));
  struct PRun *r = malloc(sizeof(*r)); __CPROVER_assume(r != 0); r->m_threadPool = p; r->m_pooledThread = pt;
  PRun__run(r); quiet(); CANARY; }
void h_Thread_flag_type(void) {
  __CPROVER_assert(ATOMIC_Thread_m_isFinished, "C15 Thread::m_isFinished (written by the worker, read by the owner without a lock) has an atomic type");
  CANARY; }
