/* Harnesses for File (C17): a file on disk of symbolic length and contents, a stream at an arbitrary position. */
#define CANARY __CPROVER_assert(0, "VACUITY-CANARY")

static void mkdisk(void) {
  size_t cap = nondet_size(); __CPROVER_assume(cap >= 1 && cap <= 2 * FLEN_MAX);
  g_disk = malloc(cap); __CPROVER_assume(g_disk != 0); g_disk_cap = cap;
  __CPROVER_assume(g_disk_len <= FLEN_MAX && g_disk_len <= cap);
}
static struct FILE *mkstream(void) {
  struct FILE *f = malloc(sizeof(*f)); __CPROVER_assume(f != 0);
  __CPROVER_assume(f->open && f->pos <= FLEN_MAX && (f->kind == K_READ || f->kind == K_WRITE || f->kind == K_APPEND));
  return f;
}
static struct File *mkfile(_Bool maybe_closed) {
  struct File *x = malloc(sizeof(*x)); __CPROVER_assume(x != 0);
  mkdisk();
  if (maybe_closed && nondet_bool()) x->m_file = 0; else x->m_file = mkstream();
  return x;
}
void h_File_size(void) { struct File *x = mkfile(0); File__size(x); CANARY; }
void h_File_read(void) { struct File *x = mkfile(0); struct AB r; File__read__void(x, &r); CANARY; }
void h_File_readStr(void) { struct File *x = mkfile(0); struct Str r; File__readStr(x, &r); CANARY; }
void h_File_read_buffer(void) {
  struct File *x = mkfile(0); size_t n = nondet_size(); __CPROVER_assume(n <= FLEN_MAX);
  unsigned char *b = malloc(n); __CPROVER_assume(b != 0);
  File__read__void_ptr_unsigned_long_unsigned_long_const(x, b, nondet_size(), n); CANARY; }
void h_File_write(void) {
  struct File *x = mkfile(0); size_t n = nondet_size(), es = nondet_size(); __CPROVER_assume(n >= 1 && n <= FLEN_MAX && es >= 1 && es <= 8);
  unsigned char *d = malloc(n * es); __CPROVER_assume(d != 0);
  File__write__void_ptr_unsigned_long_unsigned_long(x, d, n, es); CANARY; }
void h_File_write_array(void) {
  struct File *x = mkfile(0); struct AB a; size_t n = nondet_size(); __CPROVER_assume(n >= 1 && n <= FLEN_MAX);
  a.m_array = malloc(n); __CPROVER_assume(a.m_array != 0); a.m_size = n;
  File__write__AB_ref(x, &a); CANARY; }
void h_File_write_str(void) {
  struct File *x = mkfile(0); struct Str s; size_t n = nondet_size(); __CPROVER_assume(n >= 1 && n <= FLEN_MAX);
  s.p = malloc(n + 1); __CPROVER_assume(s.p != 0); s.len = n;
  File__write__Str_ref(x, &s); CANARY; }
void h_File_open(void) {
  struct File *x = mkfile(1); struct Path p; p.m_path.p = malloc(8); p.m_path.len = 7; __CPROVER_assume(p.m_path.p != 0);
  File__open(x, &p, nondet_int()); CANARY; }
void h_File_close(void) { struct File *x = mkfile(1); File__close(x); CANARY; }
void h_File_dtor(void) { struct File *x = mkfile(1); File__dtor(x); CANARY; }
