#define CANARY __CPROVER_assert(0, "VACUITY-CANARY")
/* Subject<int&>::notify(args) replaced by its effect on the ghost record: which subject, how often, with which
 * object and which value (the value the observers would see at the time of the call) */
void Subj__notify(struct Subj *self, int *args) { g_notify_count++; g_notify_on = self; g_notify_arg = args; g_notify_val = *args; }
void h_Obs_assign(void) { struct Obs *o; int *v; Obs__op_assign_T_int_ref(o, v); CANARY; }
void h_Obs_add(void) { struct Obs *o; int *v; Obs__op_add_assign_T_int_ref(o, v); CANARY; }
void h_Obs_sub(void) { struct Obs *o; int *v; Obs__op_sub_assign_T_int_ref(o, v); CANARY; }
void h_Obs_mul(void) { struct Obs *o; int *v; Obs__op_mul_assign_T_int_ref(o, v); CANARY; }
void h_Obs_div(void) { struct Obs *o; int *v; Obs__op_div_assign_T_int_ref(o, v); CANARY; }
void h_Obs_inc(void) { struct Obs *o; Obs__op_inc(o); CANARY; }
void h_Obs_dec(void) { struct Obs *o; Obs__op_dec(o); CANARY; }
void h_Obs_postinc(void) { struct Obs *o; Obs__op_postinc(o, 0); CANARY; }
void h_Obs_postdec(void) { struct Obs *o; Obs__op_postdec(o, 0); CANARY; }
void h_Obs_value(void) { struct Obs *o; Obs__value__void(o); CANARY; }
void h_Obs_deref(void) { struct Obs *o; Obs__op_deref__void(o); CANARY; }
void h_ObsE_assign(void) { struct ObsE *o; int *v; ObsE__op_assign_T_int_ref(o, v); CANARY; }
void h_ObsE_add(void) { struct ObsE *o; int *v; ObsE__op_add_assign_T_int_ref(o, v); CANARY; }
void h_ObsE_sub(void) { struct ObsE *o; int *v; ObsE__op_sub_assign_T_int_ref(o, v); CANARY; }
void h_ObsE_mul(void) { struct ObsE *o; int *v; ObsE__op_mul_assign_T_int_ref(o, v); CANARY; }
void h_ObsE_inc(void) { struct ObsE *o; ObsE__op_inc(o); CANARY; }
void h_ObsE_dec(void) { struct ObsE *o; ObsE__op_dec(o); CANARY; }
void h_ObsE_postinc(void) { struct ObsE *o; ObsE__op_postinc(o, 0); CANARY; }
void h_ObsE_postdec(void) { struct ObsE *o; ObsE__op_postdec(o, 0); CANARY; }
