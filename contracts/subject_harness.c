/* harnesses for Subject<int> */
#define CANARY __CPROVER_assert(0, "VACUITY-CANARY")
/* C10: what a callback may do to the subject it is called from: any sequence of public operations, i.e. any change that
 * preserves the representation invariant (this is an ASSUMED contract: it is applied, never enforced).  Other
 * subscriptions come and go; the watched one may be muted, unmuted, invalidated or unsubscribed (which destroys its
 * observer), or subscribed if it was not (ids are never reused, so only with an id the counter had not reached).  Nested
 * notify rounds are accounted to themselves. */
void callback_effects(void)
__CPROVER_requires(g_subj != 0 && g_w != 0)
__CPROVER_assigns(g_subj->m_observers.len, g_subj->m_subscriptionCounter, __CPROVER_object_whole(ITEMS(g_subj)))
__CPROVER_assigns(g_w_in, g_oi, g_w_alive, g_w_deletes, g_w->__base_Observer.m_params.mute, g_w->m_isValid)
__CPROVER_ensures(SUBJ_INV(g_subj) && g_subj->m_subscriptionCounter >= __CPROVER_old(g_subj->m_subscriptionCounter) && g_subj->m_subscriptionCounter < 0xfffffff0U)
__CPROVER_ensures((__CPROVER_old(g_w_in) && g_w_in) ==> (g_oi <= __CPROVER_old(g_oi) && g_w_alive && g_w_deletes == __CPROVER_old(g_w_deletes)))
__CPROVER_ensures((__CPROVER_old(g_w_in) && !g_w_in) ==> (!g_w_alive && g_w_deletes == __CPROVER_old(g_w_deletes) + 1))
__CPROVER_ensures(!__CPROVER_old(g_w_in) ==> (g_w_deletes == __CPROVER_old(g_w_deletes) && BEQ(g_w_alive, __CPROVER_old(g_w_alive))))
__CPROVER_ensures((!__CPROVER_old(g_w_in) && g_w_in) ==> (!g_in_snapshot && g_w_alive && g_wid >= __CPROVER_old(g_subj->m_subscriptionCounter)))
{ }
static struct Subj *mksubj(void) {
  size_t c; __CPROVER_assume(c >= 1 && c <= SCAP_MAX); g_scap = c;
  struct Subj *s = malloc(sizeof(*s)); __CPROVER_assume(s != 0);
  s->m_observers.items = malloc(g_scap * sizeof(struct ODet)); __CPROVER_assume(s->m_observers.items != 0);
  g_subj = s; g_w = malloc(sizeof(*g_w)); __CPROVER_assume(g_w != 0); g_wobs = &g_w->__base_Observer;
  g_w_alive = 1; g_w_deletes = 0; g_cb_calls = 0; g_turn_seen = 0; g_thrown = 0;
  __CPROVER_assume(s->m_subscriptionCounter < 0xfffffff0U && SUBJ_INV(s));
  /* the arbitrary snapshot index g_c2 and the arbitrary list index g_o2 denote the same entry */
  __CPROVER_assume(g_c2 < LEN(s) ==> g_o2 == LEN(s) - 1 - g_c2);
  g_in_snapshot = g_w_in; g_turn_pos = g_oi; g_mute0 = g_w->__base_Observer.m_params.mute; g_valid0 = g_w->m_isValid;
  return s;
}
void h_Subj_notify_pure(void) {
  struct Subj *s = mksubj(); g_reentrant = 0; int a; size_t len0 = LEN(s);
  Subj__notify(s, a);
  __CPROVER_assert(g_cb_calls == ((g_in_snapshot && !g_mute0 && g_valid0) ? 1 : 0), "C05 an observer is invoked exactly once iff it is subscribed, valid and not muted at the time of the call");
  __CPROVER_assert(g_cb_calls == 1 ==> g_cb_arg == a, "C05 it receives the argument value that was passed");
  /* items[] is oldest-first and ids increase with the index (SUBJ_INV_ORD), so the rank in subscription order is the index */
  __CPROVER_assert(g_cb_calls == 1 ==> g_cb_pos == g_turn_pos, "C05 observers are invoked in subscription order: the k-th oldest subscription is the k-th visited");
  __CPROVER_assert((g_in_snapshot && g_valid0) ==> (g_w_in && g_w_alive && g_w_deletes == 0), "C05 a valid subscription survives the round");
  __CPROVER_assert((g_in_snapshot && !g_valid0) ==> (!g_w_in && g_w_deletes == 1), "C05 an observer found invalid is removed and destroyed once");
  __CPROVER_assert(!g_in_snapshot ==> (!g_w_in && g_cb_calls == 0), "C05 an unsubscribed observer is never invoked");
  __CPROVER_assert(SUBJ_INV(s) && !g_thrown, "C05 the subject stays consistent");
  CANARY; }
void h_Subj_notify_reentrant(void) {
  struct Subj *s = mksubj(); g_reentrant = 1; int a;
  Subj__notify(s, a);
  __CPROVER_assert(g_cb_calls <= 1, "C10 an observer is invoked at most once per round whatever the callbacks do");
  __CPROVER_assert(g_cb_calls == 1 ==> g_cb_pos == g_turn_pos, "C10 the round keeps its order whatever the callbacks do");
  __CPROVER_assert(g_cb_calls == 1 ==> (g_in_snapshot && g_cb_arg == a && g_cb_in_at_call), "C10 only observers that were subscribed when the round started and still are at their turn are invoked");
  __CPROVER_assert(SUBJ_INV(s) && g_w_deletes <= 1, "C10 the subject stays consistent and no observer is destroyed twice");
  CANARY; }
void h_Subn_ctor(void) { struct Subn *s; unsigned i; struct Subj *j; struct Obsv *o; Subn__ctor(s, i, j, o); CANARY; }
void h_Subn_assign_move(void) { struct Subn *a, *b; Subn__assign_move(a, b); CANARY; }
void h_Subn_ctor_move(void) { struct Subn *a, *b; Subn__ctor_move(a, b); CANARY; }
void h_Subn_getId(void) { struct Subn *a; Subn__getId(a); CANARY; }
void h_Obsv_mute(void) { struct Obsv *o; Obsv__mute(o); CANARY; }
void h_Obsv_unmute(void) { struct Obsv *o; Obsv__unmute(o); CANARY; }
void h_Obsv_isMuted(void) { struct Obsv *o; Obsv__isMuted(o); CANARY; }
void h_EObs_isValid(void) { struct EObs *o; EObs__isValid(o); CANARY; }
void h_EObs_invalidate(void) { struct EObs *o; EObs__invalidate(o); CANARY; }
void h_Obsv_op_call(void) { struct Obsv *o; int a; Obsv__op_call(o, a); CANARY; }
void h_Subj_subscribe(void) { struct Subj *s; struct OAuto *a; struct Subn *r; Subj__subscribe(s, a, r); CANARY; }
void h_Subj_unsubscribeById(void) { struct Subj *s; unsigned id; Subj__unsubscribeById(s, id); CANARY; }
void h_Subj_unsubscribe(void) { struct Subj *s; struct Subn *h; Subj__unsubscribe(s, h); CANARY; }
void h_Subj_isSubscriptionValid(void) { struct Subj *s; struct Subn *h; Subj__isSubscriptionValid(s, h); CANARY; }
void h_Subj_hasSubscriptions(void) { struct Subj *s; Subj__hasSubscriptions(s); CANARY; }
