/* harnesses for Subject<int> */
#define CANARY __CPROVER_assert(0, "VACUITY-CANARY")
static void callback_effects(void) { }
void h_Subn_ctor(void) { struct Subn *s; unsigned i; struct Subj *j; struct Obsv *o; Subn__ctor(s, i, j, o); CANARY; }
void h_Subn_assign_move(void) { struct Subn *a, *b; Subn__assign_move(a, b); CANARY; }
void h_Subn_ctor_move(void) { struct Subn *a, *b; Subn__ctor_move(a, b); CANARY; }
void h_Subn_getId(void) { struct Subn *a; Subn__getId(a); CANARY; }
void h_Obsv_mute(void) { struct Obsv *o; Obsv__mute(o); CANARY; }
void h_Obsv_unmute(void) { struct Obsv *o; Obsv__unmute(o); CANARY; }
void h_Obsv_isMuted(void) { struct Obsv *o; Obsv__isMuted(o); CANARY; }
void h_EObs_isValid(void) { struct EObs *o; EObs__isValid(o); CANARY; }
void h_EObs_invalidate(void) { struct EObs *o; EObs__invalidate(o); CANARY; }
void h_Obsv_op_call(void) { struct Obsv *o; int a; Obsv__op_call(o, a); CANARY; }
void h_Subj_subscribe(void) { struct Subj *s; struct OAuto *a; struct Subn *r; Subj__subscribe(s, a, r); CANARY; }
void h_Subj_unsubscribeById(void) { struct Subj *s; unsigned id; Subj__unsubscribeById(s, id); CANARY; }
void h_Subj_unsubscribe(void) { struct Subj *s; struct Subn *h; Subj__unsubscribe(s, h); CANARY; }
void h_Subj_isSubscriptionValid(void) { struct Subj *s; struct Subn *h; Subj__isSubscriptionValid(s, h); CANARY; }
void h_Subj_hasSubscriptions(void) { struct Subj *s; Subj__hasSubscriptions(s); CANARY; }
