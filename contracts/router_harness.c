/* Harnesses for the SubjectRouter component: one arbitrary node (entry array of symbolic capacity, arbitrary ghost
 * values, subject present or not) and one arbitrary routing key (level array of symbolic length). */
#define CANARY __CPROVER_assert(0, "VACUITY-CANARY")
static struct Node *mknode(void) {
  size_t c; __CPROVER_assume(c >= 1 && c <= RCAP_MAX); g_rcap = c;
  struct Node *n = malloc(sizeof(*n)); __CPROVER_assume(n != 0);
  n->m_children.keys = malloc(g_rcap * sizeof(size_t)); n->m_children.kids = malloc(g_rcap * sizeof(struct Node));
  n->m_children.psum = malloc(g_rcap * sizeof(size_t)); n->m_children.pmax = malloc(g_rcap * sizeof(size_t)); n->m_children.pany = malloc(g_rcap * sizeof(_Bool));
  __CPROVER_assume(n->m_children.keys != 0 && n->m_children.kids != 0 && n->m_children.psum != 0 && n->m_children.pmax != 0 && n->m_children.pany != 0);
  g_scr = malloc(sizeof(struct Node)); g_trk = malloc(sizeof(struct Node)); __CPROVER_assume(g_scr != 0 && g_trk != 0);
  if (nondet_bool()) n->m_subject.p = 0;
  else { n->m_subject.p = malloc(sizeof(struct Subj0)); __CPROVER_assume(n->m_subject.p != 0); }
  return n;
}
static struct RLV mkview(void) {
  struct RLV lv; struct RKey *k = malloc(sizeof(*k)); __CPROVER_assume(k != 0);
  size_t l; __CPROVER_assume(l >= 1 && l <= LMAX);
  k->m_levels.items = malloc(l * sizeof(struct Lvl)); __CPROVER_assume(k->m_levels.items != 0); k->m_levels.len = l;
  g_key = k; lv.m_key = k;
  return lv;
}
void h_Node_notify_int(void) { struct Node *n = mknode(); struct RLV lv = mkview(); int a; Node__notify_T_int(n, lv, &a); CANARY; }
void h_Node_notify_int_ref(void) { struct Node *n = mknode(); struct RLV lv = mkview(); int a; Node__notify_T_int_ref(n, lv, &a); CANARY; }
void h_Node_notify_payload(void) { struct Node *n = mknode(); struct RLV lv = mkview(); struct Payload a; Node__notify_T_Payload(n, lv, &a); CANARY; }
void h_Node_notify_void(void) { struct Node *n = mknode(); struct RLV lv = mkview(); Node__notify_T_(n, lv); CANARY; }
static struct SV mkname(void) { struct Str *s = malloc(sizeof(*s)); __CPROVER_assume(s != 0); struct SV v; v.id = s->id; v.src = s; return v; }
void h_RLV_matches(void) { struct RLV lv = mkview(); _Bool r = RLV__matches(&lv, mkname()); CANARY; }
void h_RLV_isLeaf(void) { struct RLV lv = mkview(); RLV__isLeaf(&lv); CANARY; }
void h_RLV_isRegex(void) { struct RLV lv = mkview(); RLV__isRegex(&lv); CANARY; }
void h_RLV_asString(void) { struct RLV lv = mkview(); RLV__asString(&lv); CANARY; }
void h_RLV_up(void) { struct RLV lv = mkview(), r; RLV__up(&lv, &r); CANARY; }
void h_RKey_getLevel(void) { struct RLV lv = mkview(); int i; RKey__getLevel(lv.m_key, i); CANARY; }
void h_RKey_getLevelCount(void) { struct RLV lv = mkview(); RKey__getLevelCount(lv.m_key); CANARY; }
void h_Node_exists(void) { struct Node *n = mknode(); struct RLV lv = mkview(); Node__exists(n, lv); CANARY; }
void h_Node_depth(void) { struct Node *n = mknode(); Node__depth(n); CANARY; }
void h_Node_isEmpty(void) { struct Node *n = mknode(); Node__isEmpty(n); CANARY; }
#ifdef SHRINK_CASE
static void shrink_case(void) { struct Node *n = mknode(); struct RLV lv = mkview(); g_case = SHRINK_CASE; Node__shrink(n, lv); CANARY; }
void h_Node_shrink_any(void) { shrink_case(); }
void h_Node_shrink_w(void) { shrink_case(); }
void h_Node_shrink_l(void) { shrink_case(); }
void h_Node_shrink_first(void) { shrink_case(); }
#endif
void h_Node_lookupNode(void) { struct Node *n = mknode(); struct RLV lv = mkview(); Node__lookupNode(n, lv); CANARY; }
void h_Node_subscribe_int(void) { struct Node *n = mknode(); struct RLV lv = mkview(); struct OPtrI o; struct closure_Node__subscribe_T_int_1 f; struct SubnI r;
  Node__subscribe_T_int_lambda_SubjectRouter_h_L99(n, lv, &o, &f, &r); CANARY; }
void h_Node_subscribe_void(void) { struct Node *n = mknode(); struct RLV lv = mkview(); struct OPtr0 o; struct closure_Node__subscribe_T__1 f; struct Subn0 r;
  Node__subscribe_T__lambda_SubjectRouter_h_L99(n, lv, &o, &f, &r); CANARY; }
static struct Router *mkrouter(void) { struct Router *r = malloc(sizeof(*r)); __CPROVER_assume(r != 0); return r; }
void h_Router_exists(void) { struct Router *r = mkrouter(); struct RLV lv = mkview(); Router__exists(r, lv.m_key); CANARY; }
void h_Router_depth(void) { struct Router *r = mkrouter(); Router__depth(r); CANARY; }
void h_Router_shrink(void) { struct Router *r = mkrouter(); struct RLV lv = mkview(); Router__shrink(r, lv.m_key); CANARY; }
void h_Router_notify_int(void) { struct Router *r = mkrouter(); struct RLV lv = mkview(); int a; Router__notify_T_int(r, lv.m_key, &a); CANARY; }
