/* Harnesses for the Path / DirectoryVisitor component (C18: the string and visitor clauses).
 * Each harness states one clause of the property over symbolic strings of symbolic length; the real lowered functions
 * are called and the results compared at the arbitrary index g_k. */
#define CANARY __CPROVER_assert(0, "VACUITY-CANARY")
/* the ghost instantiation points and the working directory are arbitrary */
static void ghosts(void) {
  g_k = nondet_size(); g_j = nondet_size(); g_lm1 = nondet_size(); g_lm2 = nondet_size(); g_lm3 = nondet_size();
  g_cwd_id = nondet_size(); g_cwd_len = nondet_size(); g_prev_cwd_id = nondet_size();
  g_chdir_calls = 0; g_getcwd_calls = 0; g_cwdbuf = 0; g_thrown = 0;
  g_exists = nondet_bool(); g_isdir = nondet_bool();
}
/* an arbitrary string of arbitrary length */
static void mkstr(struct Str *s, size_t minlen) {
  size_t l = nondet_size(); __CPROVER_assume(l >= minlen && l <= SLEN_MAX);
  s->p = malloc(l + 1); __CPROVER_assume(s->p != 0);
  s->off = 0; s->len = l; s->id = nondet_size(); __CPROVER_assume((s->id == 0) == (l == 0)); s->sf_lo = 0; s->sf_hi = 0;
}
/* backslashes: Path.cpp treats '\\' as a separator in getPathName/getParentDirectory but not in join (Linux); the clauses
 * are stated for strings without backslashes, where both readings of "separator" agree (DESIGN.md 11.7) */
#define NO_BACKSLASH_AT(s, x) if ((x) < (s)->len) __CPROVER_assume((s)->p[(s)->off + (x)] != '\\');

/* ---- join(d, n) for a non-empty directory d and a non-empty separator-free name n ---- */
static void setup_join(struct Str *d, struct Str *n, struct Str *j, _Bool *dsep) {
  ghosts();
  mkstr(d, 1); mkstr(n, 1);
  n->sf_lo = 0; n->sf_hi = n->len;                       /* hypothesis: n contains no separator */
  *dsep = d->p[d->len - 1] == '/';
  /* instantiation points: g_k arbitrary; the joint; the last character of d; the start of n */
  size_t t = *dsep ? d->len : d->len + 1;                /* where n starts in the result */
  __CPROVER_assume(g_lm1 == d->len - 1 && g_lm2 == d->len && g_lm3 == t + g_k && g_j == t - 1);
  NO_BACKSLASH_AT(d, d->len - 1) NO_BACKSLASH_AT(d, g_k)
  Path__join__Str_ref_Str_ref(d, n, j);
}
void h_join_name(void) {
  ghosts();
  struct Str d, n, j; _Bool dsep; setup_join(&d, &n, &j, &dsep);
  struct Path pj; pj.m_path = j; struct Str name;
  Path__getPathName(&pj, &name);
  __CPROVER_assert(name.len == n.len, "C18 the name of join(d, n) has the length of n");
  if (g_k < n.len) __CPROVER_assert(str_at(&name, g_k) == str_at(&n, g_k), "C18 the name of join(d, n) is n, character by character");
  CANARY;
}
void h_join_parent(void) {
  ghosts();
  struct Str d, n, j; _Bool dsep; setup_join(&d, &n, &j, &dsep);
  struct Path pj, par; pj.m_path = j;
  Path__getParentDirectory(&pj, &par);
  size_t want = dsep ? d.len - 1 : d.len;
  __CPROVER_assert(par.m_path.len == want, "C18 the parent of join(d, n) has the length of d without a trailing separator");
  if (g_k < want) __CPROVER_assert(str_at(&par.m_path, g_k) == str_at(&d, g_k), "C18 the parent of join(d, n) is d without a trailing separator, character by character");
  CANARY;
}
/* ---- joining an absolute path yields that path; joining onto the empty path yields the right operand ---- */
void h_join_absolute(void) {
  ghosts();
  struct Str x, a, j; mkstr(&x, 0); mkstr(&a, 1);
  __CPROVER_assume(a.p[0] == '/');
  Path__join__Str_ref_Str_ref(&x, &a, &j);
  __CPROVER_assert(j.len == a.len && j.id == a.id, "C18 joining an absolute path yields that path");
  if (g_k < a.len) __CPROVER_assert(str_at(&j, g_k) == str_at(&a, g_k), "C18 joining an absolute path yields that path, character by character");
  struct Path pa; pa.m_path = a;
  __CPROVER_assert(Path__isAbsolute(&pa), "C18 a path that starts with the separator is absolute");
  CANARY;
}
void h_join_empty(void) {
  ghosts();
  struct Str x, b, j; Str__ctor_default(&x); mkstr(&b, 0);
  Path__join__Str_ref_Str_ref(&x, &b, &j);
  __CPROVER_assert(j.len == b.len && j.id == b.id, "C18 joining onto the empty path yields the right operand");
  if (g_k < b.len) __CPROVER_assert(str_at(&j, g_k) == str_at(&b, g_k), "C18 joining onto the empty path yields the right operand, character by character");
  CANARY;
}
void h_isAbsolute(void) {
  ghosts();
  struct Path p; mkstr(&p.m_path, 0);
  _Bool r = Path__isAbsolute(&p);
  __CPROVER_assert(r == (p.m_path.len > 0 && p.m_path.p[0] == '/'), "C18 absolute = starts with the separator");
  CANARY;
}
/* ---- every string, including the empty one and a single separator: no access outside the string, no exception ---- */
void h_name_total(void) {
  ghosts();
  struct Path p; mkstr(&p.m_path, 0); struct Str name;
  Path__getPathName(&p, &name);
  __CPROVER_assert(name.len <= p.m_path.len, "C18 the name is a part of the path");
  /* the name is a suffix of the path ... */
  if (g_k < name.len) __CPROVER_assert(str_at(&name, g_k) == str_at(&p.m_path, p.m_path.len - name.len + g_k), "C18 the name is a suffix of the path");
  /* ... that starts right after a separator (or is the whole path) */
  if (name.len < p.m_path.len) __CPROVER_assert(ISSEP(str_at(&p.m_path, p.m_path.len - name.len - 1)), "C18 the name starts after a separator");
  CANARY;
}
void h_parent_total(void) {
  ghosts();
  struct Path p, par; mkstr(&p.m_path, 0);
  Path__getParentDirectory(&p, &par);
  __CPROVER_assert(par.m_path.len <= p.m_path.len, "C18 the parent is a part of the path");
  if (g_k < par.m_path.len) __CPROVER_assert(str_at(&par.m_path, g_k) == str_at(&p.m_path, g_k), "C18 the parent is a prefix of the path");
  if (par.m_path.len > 0 || (p.m_path.len > 0 && ISSEP(p.m_path.p[0]))) __CPROVER_assert(par.m_path.len < p.m_path.len && ISSEP(str_at(&p.m_path, par.m_path.len)), "C18 the parent ends right before a separator");
  CANARY;
}
/* ---- DirectoryVisitor ---- */
void h_DV_restores(void) {
  ghosts();
  struct Path dir; mkstr(&dir.m_path, 1);
  size_t cwd0 = g_cwd_id; __CPROVER_assume(cwd0 != 0 && g_cwd_len >= 1 && g_cwd_len < 4096 && g_prev_cwd_id == cwd0);
  struct DV v; DV__ctor(&v, &dir);
  __CPROVER_assert(g_cwd_id == dir.m_path.id || g_cwd_id == cwd0, "C18 the visitor enters the directory it was given (or stays, when chdir fails)");
  g_cwd_id = nondet_size(); g_cwd_len = nondet_size();        /* whatever the visit did to the working directory */
  DV__dtor(&v);
  __CPROVER_assert(g_cwd_id == cwd0, "C18 a DirectoryVisitor restores the previous working directory when it is destroyed");
  CANARY;
}
void h_DV_empty(void) {
  ghosts();
  size_t cwd0 = g_cwd_id; __CPROVER_assume(cwd0 != 0 && g_cwd_len >= 1 && g_cwd_len < 4096 && g_prev_cwd_id == cwd0);
  struct DV v;
  if (nondet_bool()) DV__ctor_default(&v); else { struct Path e; Str__ctor_default(&e.m_path); DV__ctor(&v, &e); }
  DV__dtor(&v);
  __CPROVER_assert(g_cwd_id == cwd0 && g_chdir_calls == 0, "C18 a DirectoryVisitor without a directory leaves the working directory alone");
  CANARY;
}
void h_listChildren(void) { struct Path p; struct PathList r; mkstr(&p.m_path, 0); Path__listChildren(&p, &r); CANARY; }
