/* harnesses: one entry point per function under contract; dfcc makes arguments and ghosts nondeterministic */
#define CANARY __CPROVER_assert(0, "VACUITY-CANARY")

/* std::equal(first1, last1, first2, last2) for random-access iterators: distances must agree, then
 * element-wise ==.  The loop is modelled by a nondeterministic witness: a mismatch may be found at any
 * index (return false); "no mismatch" is only reported for index g_k-consistent executions.  The model's
 * behaviours include every behaviour of the real algorithm (DESIGN.md 3.2). */
#define EQUAL_MODEL(CI) \
static _Bool X_equal__##CI##_##CI##_##CI##_##CI(struct CI f1, struct CI l1, struct CI f2, struct CI l2) { \
  long d1 = CI##__op_sub__##CI##_const(&l1, f1), d2 = CI##__op_sub__##CI##_const(&l2, f2); \
  if (d1 != d2) return 0; \
  size_t w = g_eq_witness; \
  if (d1 > 0 && w < (size_t)d1) { \
    struct CI a = f1, b = f2; a.m_index += w; b.m_index += w; \
    if (!Elem__op_eq(CI##__op_deref(&a), CI##__op_deref(&b))) return 0; \
  } \
  if (d1 > 0 && g_k < (size_t)d1) { \
    struct CI a = f1, b = f2; a.m_index += g_k; b.m_index += g_k; \
    __CPROVER_assume(Elem__op_eq(CI##__op_deref(&a), CI##__op_deref(&b))); \
  } \
  return 1; \
}
EQUAL_MODEL(CItT)
EQUAL_MODEL(CItF)

#define HARNESSES(T) \
void h_##T##_modCap(void) { struct T *s; long i; T##__modCap(s, i); CANARY; } \
void h_##T##_empty(void) { struct T *s; T##__empty(s); CANARY; } \
void h_##T##_full(void) { struct T *s; T##__full(s); CANARY; } \
void h_##T##_size(void) { struct T *s; T##__size(s); CANARY; } \
void h_##T##_capacity(void) { struct T *s; T##__capacity(s); CANARY; } \
void h_##T##_op_index(void) { struct T *s; size_t i; T##__op_index__unsigned_long(s, i); CANARY; } \
void h_##T##_op_index_c(void) { struct T *s; size_t i; T##__op_index__unsigned_long_const(s, i); CANARY; } \
void h_##T##_front(void) { struct T *s; T##__front(s); CANARY; } \
void h_##T##_back(void) { struct T *s; T##__back(s); CANARY; } \
void h_##T##_emplace_back(void) { struct T *s; struct Elem *x; T##__emplace_back_T_Elem_ref(s, x); CANARY; } \
void h_##T##_emplace_front(void) { struct T *s; struct Elem *x; T##__emplace_front_T_Elem_ref(s, x); CANARY; } \
void h_##T##_push_back(void) { struct T *s; struct Elem *x; T##__push_back(s, x); CANARY; } \
void h_##T##_push_front(void) { struct T *s; struct Elem *x; T##__push_front(s, x); CANARY; } \
void h_##T##_pop_back(void) { struct T *s; struct Elem *r; T##__pop_back(s, r); CANARY; } \
void h_##T##_pop_front(void) { struct T *s; struct Elem *r; T##__pop_front(s, r); CANARY; } \
void h_##T##_ctor_cap(void) { struct T *s; size_t c; T##__ctor__unsigned_long(s, c); CANARY; } \
void h_##T##_ctor_list(void) { struct T *s; struct std_initializer_list_Elem l; size_t c; T##__ctor__std_initializer_list_Elem_unsigned_long(s, l, c); CANARY; } \
void h_##T##_assign_copy(void) { struct T *s; struct T *o; T##__assign_copy(s, o); CANARY; } \
void h_##T##_ctor_copy(void) { struct T *s; struct T *o; T##__ctor_copy(s, o); CANARY; } \
void h_##T##_assign_move(void) { struct T *s; struct T *o; T##__assign_move(s, o); CANARY; } \
void h_##T##_ctor_move(void) { struct T *s; struct T *o; T##__ctor_move(s, o); CANARY; } \
void h_##T##_dtor(void) { struct T *s; T##__dtor(s); CANARY; } \
void h_##T##_silentCopy(void) { struct closure_##T##__resize_1 *c; struct Elem *d; size_t n; closure_##T##__resize_1__call(c, d, n); CANARY; } \
void h_##T##_resize_shrink_inplace(void) { struct T *s; size_t n; __CPROVER_assume(g_case == 1); T##__resize(s, n); CANARY; } \
void h_##T##_resize_shrink_move(void) { struct T *s; size_t n; __CPROVER_assume(g_case == 4); T##__resize(s, n); CANARY; } \
void h_##T##_resize_grow(void) { struct T *s; size_t n; __CPROVER_assume(g_case == 2); T##__resize(s, n); CANARY; } \
void h_##T##_begin(void) { struct T *s; void *r; T##__begin__void(s, r); CANARY; } \
void h_##T##_end(void) { struct T *s; void *r; T##__end__void(s, r); CANARY; } \
void h_##T##_begin_c(void) { struct T *s; void *r; T##__begin__void_const(s, r); CANARY; } \
void h_##T##_end_c(void) { struct T *s; void *r; T##__end__void_const(s, r); CANARY; } \
void h_##T##_cbegin(void) { struct T *s; void *r; T##__cbegin(s, r); CANARY; } \
void h_##T##_cend(void) { struct T *s; void *r; T##__cend(s, r); CANARY; } \
void h_##T##_resize_same(void) { struct T *s; size_t n; __CPROVER_assume(g_case == 3); T##__resize(s, n); CANARY; }
HARNESSES(RBt)
HARNESSES(RBf)

void h_RBt_op_eq(void) { struct RBt *a, *b; RBt__op_eq_T_1(a, b); CANARY; }
void h_RBf_op_eq(void) { struct RBf *a, *b; RBf__op_eq_T_0(a, b); CANARY; }
#define ITER_HARNESSES(I, T) \
void h_##I##_ctor(void) { struct I *s; struct T *c; size_t i; I##__ctor(s, c, i); CANARY; } \
void h_##I##_op_inc(void) { struct I *s; I##__op_inc(s); CANARY; } \
void h_##I##_op_dec(void) { struct I *s; I##__op_dec(s); CANARY; } \
void h_##I##_op_postinc(void) { struct I *s; struct I *r; I##__op_postinc(s, 0, r); CANARY; } \
void h_##I##_op_postdec(void) { struct I *s; struct I *r; I##__op_postdec(s, 0, r); CANARY; } \
void h_##I##_op_add_assign(void) { struct I *s; long i; I##__op_add_assign(s, i); CANARY; } \
void h_##I##_op_sub_assign(void) { struct I *s; long i; I##__op_sub_assign(s, i); CANARY; } \
void h_##I##_op_add(void) { struct I *s; struct I *r; long i; I##__op_add(s, i, r); CANARY; } \
void h_##I##_op_sub(void) { struct I *s; struct I *r; long i; I##__op_sub__long_const(s, i, r); CANARY; } \
void h_##I##_op_diff(void) { struct I *s; struct I o; I##__op_sub__##I##_const(s, o); CANARY; } \
void h_##I##_op_eq(void) { struct I *s; struct I o; I##__op_eq(s, o); CANARY; } \
void h_##I##_op_ne(void) { struct I *s; struct I o; I##__op_ne(s, o); CANARY; } \
void h_##I##_op_lt(void) { struct I *s; struct I o; I##__op_lt(s, o); CANARY; } \
void h_##I##_op_gt(void) { struct I *s; struct I o; I##__op_gt(s, o); CANARY; } \
void h_##I##_op_le(void) { struct I *s; struct I o; I##__op_le(s, o); CANARY; } \
void h_##I##_op_ge(void) { struct I *s; struct I o; I##__op_ge(s, o); CANARY; } \
void h_##I##_op_deref(void) { struct I *s; I##__op_deref(s); CANARY; }
ITER_HARNESSES(ItT, RBt)
ITER_HARNESSES(CItT, RBt)
ITER_HARNESSES(ItF, RBf)
ITER_HARNESSES(CItF, RBf)
