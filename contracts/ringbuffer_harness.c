/* harnesses: one entry point per function under contract; dfcc makes arguments and ghosts nondeterministic */
#define CANARY __CPROVER_assert(0, "VACUITY-CANARY")
size_t g_eq_witness;
static _Bool X_equal__CItT_CItT_CItT_CItT(struct CItT f1, struct CItT l1, struct CItT f2, struct CItT l2) { return 0; }
static _Bool X_equal__CItF_CItF_CItF_CItF(struct CItF f1, struct CItF l1, struct CItF f2, struct CItF l2) { return 0; }

#define HARNESSES(T) \
void h_##T##_modCap(void) { struct T *s; long i; T##__modCap(s, i); CANARY; } \
void h_##T##_empty(void) { struct T *s; T##__empty(s); CANARY; } \
void h_##T##_full(void) { struct T *s; T##__full(s); CANARY; } \
void h_##T##_size(void) { struct T *s; T##__size(s); CANARY; } \
void h_##T##_capacity(void) { struct T *s; T##__capacity(s); CANARY; } \
void h_##T##_op_index(void) { struct T *s; size_t i; T##__op_index__unsigned_long(s, i); CANARY; } \
void h_##T##_op_index_c(void) { struct T *s; size_t i; T##__op_index__unsigned_long_const(s, i); CANARY; } \
void h_##T##_front(void) { struct T *s; T##__front(s); CANARY; } \
void h_##T##_back(void) { struct T *s; T##__back(s); CANARY; } \
void h_##T##_emplace_back(void) { struct T *s; struct Elem *x; T##__emplace_back_T_Elem_ref(s, x); CANARY; } \
void h_##T##_emplace_front(void) { struct T *s; struct Elem *x; T##__emplace_front_T_Elem_ref(s, x); CANARY; } \
void h_##T##_push_back(void) { struct T *s; struct Elem *x; T##__push_back(s, x); CANARY; } \
void h_##T##_push_front(void) { struct T *s; struct Elem *x; T##__push_front(s, x); CANARY; } \
void h_##T##_pop_back(void) { struct T *s; struct Elem *r; T##__pop_back(s, r); CANARY; } \
void h_##T##_pop_front(void) { struct T *s; struct Elem *r; T##__pop_front(s, r); CANARY; } \
void h_##T##_ctor_cap(void) { struct T *s; size_t c; T##__ctor__unsigned_long(s, c); CANARY; } \
void h_##T##_ctor_list(void) { struct T *s; struct std_initializer_list_Elem l; size_t c; T##__ctor__std_initializer_list_Elem_unsigned_long(s, l, c); CANARY; } \
void h_##T##_assign_copy(void) { struct T *s; struct T *o; T##__assign_copy(s, o); CANARY; } \
void h_##T##_ctor_copy(void) { struct T *s; struct T *o; T##__ctor_copy(s, o); CANARY; } \
void h_##T##_assign_move(void) { struct T *s; struct T *o; T##__assign_move(s, o); CANARY; } \
void h_##T##_ctor_move(void) { struct T *s; struct T *o; T##__ctor_move(s, o); CANARY; } \
void h_##T##_dtor(void) { struct T *s; T##__dtor(s); CANARY; } \
void h_##T##_silentCopy(void) { struct closure_##T##__resize_1 *c; struct Elem *d; size_t n; closure_##T##__resize_1__call(c, d, n); CANARY; } \
void h_##T##_resize_shrink_inplace(void) { struct T *s; size_t n; __CPROVER_assume(g_case == 1); T##__resize(s, n); CANARY; } \
void h_##T##_resize_shrink_move(void) { struct T *s; size_t n; __CPROVER_assume(g_case == 4); T##__resize(s, n); CANARY; } \
void h_##T##_resize_grow(void) { struct T *s; size_t n; __CPROVER_assume(g_case == 2); T##__resize(s, n); CANARY; } \
void h_##T##_resize_same(void) { struct T *s; size_t n; __CPROVER_assume(g_case == 3); T##__resize(s, n); CANARY; }
HARNESSES(RBt)
HARNESSES(RBf)
