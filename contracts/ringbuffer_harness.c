/* harnesses: one entry point per function under contract; dfcc makes arguments and ghosts nondeterministic */
#define CANARY __CPROVER_assert(0, "VACUITY-CANARY")
size_t g_eq_witness;
static _Bool X_equal__CItT_CItT_CItT_CItT(struct CItT f1, struct CItT l1, struct CItT f2, struct CItT l2) { return 0; }
static _Bool X_equal__CItF_CItF_CItF_CItF(struct CItF f1, struct CItF l1, struct CItF f2, struct CItF l2) { return 0; }

void h_RBt_modCap(void) { struct RBt *s; long i; RBt__modCap(s, i); CANARY; }
void h_RBt_emplace_back(void) { struct RBt *s; struct Elem *x; RBt__emplace_back_T_Elem_ref(s, x); CANARY; }
