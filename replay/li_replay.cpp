// Native replay for LocaleInfo::get: runs the real function (ASan/UBSan + -ftrivial-auto-var-init=pattern is not
// available in gcc 12; uninitialised reads are detected by poisoning the stack pattern via a canary Info) on one input
// and checks the result against the tables.   usage: li_replay <locale-string>
#include <tulz/LocaleInfo.h>
#include <cstdio>
#include <cstring>
#include <string>
using tulz::LocaleInfo;
static bool in_tables(const char *p) {
    if (!p) return false;
    for (int i = 0; i < LocaleInfo::languagesCount; i++) if (p == LocaleInfo::languageInfo[i].value || p == LocaleInfo::languageInfo[i].code) return true;
    for (int i = 0; i < LocaleInfo::countiesCount; i++) if (p == LocaleInfo::countryInfo[i].value || p == LocaleInfo::countryInfo[i].code) return true;
    return false;
}
static void dirty_stack() { volatile char junk[4096]; memset((void*)junk, 0x5A, sizeof(junk)); }
int main(int argc, char **argv) {
    if (argc < 2) return 2;
    std::string in = argv[1];
    if (in.rfind("@repeat:", 0) == 0) { size_t c = in.find(':', 8); int n = atoi(in.substr(8, c - 8).c_str()); in = std::string(n, 'a') + in.substr(c + 1); }
    dirty_stack();
    auto r = LocaleInfo::get(in.c_str());
    int bad = 0;
    if (r.error) {
        if (!r.languageCode || strcmp(r.languageCode, "en") || !r.country || strcmp(r.country, "United Kingdom") || r.languages.size() != 1) { puts("CONFIRMED: error set but the result is not the documented fallback"); bad = 1; }
    } else {
        if (!in_tables(r.languageCode)) { puts("CONFIRMED: languageCode does not refer to a table entry (uninitialised or foreign pointer)"); bad = 1; }
        if (!in_tables(r.country) || !in_tables(r.countryCode)) { puts("CONFIRMED: country does not refer to a table entry"); bad = 1; }
        if (r.languages.empty()) { puts("CONFIRMED: no language name returned although no error is reported"); bad = 1; }
        for (auto l : r.languages) if (!in_tables(l)) { puts("CONFIRMED: a language name does not refer to a table entry"); bad = 1; }
        // agreement with the text (independent split of the input): language_COUNTRY[.charset]
        size_t us = in.find('_'), dot = in.find('.');
        if (us == std::string::npos || (dot != std::string::npos && dot < us)) { puts("CONFIRMED: accepted although the input is not language_COUNTRY"); bad = 1; }
        else {
            std::string lang = in.substr(0, us), ctry = in.substr(us + 1, (dot == std::string::npos ? in.size() : dot) - us - 1);
            bool lok = false;
            for (int i = 0; i < LocaleInfo::languagesCount; i++)
                if (r.languageCode && !strcmp(LocaleInfo::languageInfo[i].code, r.languageCode) && (lang == LocaleInfo::languageInfo[i].code || lang == LocaleInfo::languageInfo[i].value)) lok = true;
            if (!lok) { printf("CONFIRMED: languageCode %s is not the code of an entry whose code or name is \"%s\"\n", r.languageCode ? r.languageCode : "(null)", lang.c_str()); bad = 1; }
            if (!bad && ctry != r.countryCode && ctry != r.country) { printf("CONFIRMED: country %s / %s returned for the country part \"%s\"\n", r.countryCode, r.country, ctry.c_str()); bad = 1; }
            for (auto l : r.languages) { bool ok = false;
                for (int i = 0; i < LocaleInfo::languagesCount; i++) if (l == LocaleInfo::languageInfo[i].value && (lang == LocaleInfo::languageInfo[i].code || lang == LocaleInfo::languageInfo[i].value)) ok = true;
                if (!ok && !bad) { printf("CONFIRMED: language name %s listed for \"%s\"\n", l, lang.c_str()); bad = 1; } }
        }
    }
    if (!bad) puts("NOT-REPRODUCED");
    return bad;
}
