// Native replay for C08/C15: the REAL ThreadPool.cpp/Thread.cpp against the shim headers.  A worker that has just
// evaluated its wait predicate (false) and has not yet blocked is held there; stop() runs meanwhile.  If stop() can
// clear the flag and notify without the queue mutex, the worker misses the notification and stop() never returns.
#include <mutex>
#include <condition_variable>
#include <thread>
#include <cstdio>
#include <cstdlib>
#include <tuple>
#include <list>
#include <src/threading/ThreadPool.cpp>
#include <src/threading/Thread.cpp>
#include <src/threading/Runnable.cpp>
static volatile int pause_on = 0, reached = 0, release_worker = 0, task_done = 0, stop_returned = 0;
static void hook() { if (pause_on) { pause_on = 0; reached = 1; while (!release_worker) usleep(200); } }
static void task() { task_done = 1; }
static tulz::ThreadPool *pool;
static void *stopper(void *) { pool->stop(); stop_returned = 1; return 0; }
static bool wait_until(volatile int &f, int ms) { for (int i = 0; i < ms * 5; i++) { if (f) return true; usleep(200); } return false; }
int main() {
    verif_shim::before_block() = hook;
    pool = new tulz::ThreadPool();
    pause_on = 0;
    pool->start(&task);
    if (!wait_until(task_done, 3000)) { puts("SETUP-FAILED"); return 2; }
    pause_on = 1;                               // the next time the worker finds its predicate false it is held before blocking
    pool->start(&task);                         // wake it up for one more round
    if (!wait_until(reached, 3000)) { puts("SETUP-FAILED: worker did not reach the window"); return 2; }
    pthread_t t; pthread_create(&t, 0, stopper, 0);
    usleep(100000);                             // stop() clears the flag and notifies (if it can) while the worker is in the window
    release_worker = 1;                         // the worker now blocks in wait()
    if (!wait_until(stop_returned, 3000)) { puts("CONFIRMED: stop() does not return: the worker missed the notification sent between its predicate check and its wait"); fflush(stdout); _exit(1); }
    puts("NOT-REPRODUCED"); return 0;
}
