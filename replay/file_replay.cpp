// Native replay aid for C17: the real File over temporary files.  Exit 1 + "CONFIRMED: ..." when a clause fails.
#include <tulz/File.h>
#include <tulz/Exception.h>
#include <cstdio>
#include <string>
#include <vector>
#include <unistd.h>
#include <cstdlib>
#include <sys/stat.h>
using namespace tulz;
static int bad = 0;
static void fail(const std::string &what) { if (bad < 12) printf("CONFIRMED: %s\n", what.c_str()); ++bad; }
static std::string hex(const std::string &s) { std::string r; char b[4]; for (unsigned char c : s) { snprintf(b, sizeof b, "%02x", c); r += b; if (r.size() > 40) { r += ".."; break; } } return r; }
int main() {
    char tmpl[] = "/tmp/file_replay_XXXXXX";
    if (!mkdtemp(tmpl)) return 0;
    std::string dir = tmpl, f = dir + "/data.bin";
    std::vector<std::string> contents = {"", "a", std::string("\0", 1), "\xff", "abc\xff" "def", "\xff\xfe\x00\x01", "line1\r\nline2\n", std::string(70000, 'x') + "\xff" + std::string(10, 'y'), std::string("a\0b\0", 4)};
    contents[5] = std::string("\xff\xfe\x00\x01", 4);
    for (auto &c : contents) for (int split = 0; split < 3; ++split) for (auto wm : {File::Mode::Write, File::Mode::WriteText}) {
        { File w(f, wm);
          if (split == 0) w.write(c);
          else if (split == 1) { size_t h = c.size() / 2; w.write(c.data(), h); w.write(c.data() + h, c.size() - h); }
          else { Array<byte> a(c.size()); for (size_t i = 0; i < c.size(); ++i) a[i] = (byte) c[i]; if (c.size()) w.write(a); } }
        for (auto rm : {File::Mode::Read, File::Mode::ReadText}) for (int pre = 0; pre < 3; ++pre) {
            File r(f, rm);
            std::string tag = "content " + hex(c) + " (" + std::to_string(c.size()) + " bytes), mode " + (rm == File::Mode::Read ? "Read" : "ReadText") + ", pre-step " + std::to_string(pre);
            if (pre == 1 && c.size() > 1) { char b[1]; r.read(b, 1, 1); }
            if (pre == 2) r.seek(0, File::Origin::End);
            long p0 = r.tell();
            if (r.size() != c.size()) fail("size() = " + std::to_string(r.size()) + " for " + tag);
            if (r.tell() != p0) fail("size() moved the position for " + tag);
            std::string s = r.readStr();
            if (s != c) fail("readStr() returned " + std::to_string(s.size()) + " bytes " + hex(s) + " for " + tag);
            auto a = r.read();
            if (a.size() != c.size() || std::string((const char *) a.array(), a.size()) != c) fail("read() returned " + std::to_string(a.size()) + " bytes for " + tag);
            r.seek(0, File::Origin::Start);
            std::string buf(c.size() + 3, '?');
            size_t n = r.read(buf.data(), 1, buf.size());
            if (n != c.size() || buf.substr(0, n) != c) fail("read(buffer) returned " + std::to_string(n) + " bytes for " + tag);
        }
        // append adds after the existing content
        { File a(f, File::Mode::Append); a.write(std::string("TAIL")); }
        { File r(f, File::Mode::Read); if (r.readStr() != c + "TAIL") fail("append did not add after the existing content of " + std::to_string(c.size()) + " bytes"); }
    }
    try { File r(dir + "/missing", File::Mode::Read); fail("opening a missing file for reading did not throw"); }
    catch (const Exception &e) { if (e.type != Path::NotFound) fail("missing file: exception type " + std::to_string(e.type)); }
    try { File r(dir, File::Mode::Read); fail("opening a directory did not throw"); }
    catch (const Exception &e) { if (e.type != Path::NotFile) fail("directory: exception type " + std::to_string(e.type)); }
    try { File w(dir + "/new", File::Mode::Write); w.write(std::string("x")); } catch (...) { fail("opening a missing file for writing threw"); }
    remove((dir + "/new").c_str()); remove(f.c_str()); rmdir(dir.c_str());
    if (bad) { printf("%d violation(s)\n", bad); return 1; }
    printf("NOT-REPRODUCED\n");
    return 0;
}
