// Native replay for rwp::Resource monitor counterexamples: the REAL Resource.cpp compiled against the shim headers.
// Scenario A (C01/C12 overlap): W holds; R1, R2 park (one read entry); W2 parks; W unlocks; R1 runs and unlocks while
//   R2 (admitted) is still slow to wake up; then R2 resumes.  Violation: R2 reads while W2 writes.
// Scenario B (C02 lost wake-up): as A without W2; after R1 left, the state is reset; R2 never returns from lockRead.
#include <mutex>
#include <condition_variable>
#include <cstdio>
#include <cstdlib>
#include <cstring>
#include <unistd.h>
#include <src/threading/rwp/Resource.cpp>
using tulz::rwp::Resource;
static Resource *res;
static volatile int writers_in = 0, readers_in = 0, overlap = 0;
static pthread_mutex_t st = PTHREAD_MUTEX_INITIALIZER;
static __thread int my_slow = 0;
static volatile int release_slow = 0, slow_reached = 0;
static volatile int r1_go_unlock = 0, r1_done = 0, r2_done = 0, w2_in = 0, w2_go = 0, w_go_unlock = 0, w_locked = 0;
static void enter(bool w) { pthread_mutex_lock(&st); if (w) { writers_in++; } else readers_in++; if (writers_in && (readers_in || writers_in > 1)) overlap = 1; pthread_mutex_unlock(&st); }
static void leave(bool w) { pthread_mutex_lock(&st); if (w) writers_in--; else readers_in--; pthread_mutex_unlock(&st); }
static void hook() { if (my_slow) { slow_reached = 1; while (!release_slow) usleep(200); } }
static bool wait_until(volatile int &flag, int ms = 3000) { for (int i = 0; i < ms * 5; i++) { if (flag) return true; usleep(200); } return false; }
static bool wait_parked(int n, int ms = 3000) { for (int i = 0; i < ms * 5; i++) { if (verif_shim::parked() >= n) return true; usleep(200); } return false; }
static void *W(void *) { res->lockWrite(); enter(true); w_locked = 1; wait_until(w_go_unlock, 10000); leave(true); res->unlockWrite(); return 0; }
static void *R1(void *) { res->lockRead(); enter(false); wait_until(r1_go_unlock, 10000); leave(false); res->unlockRead(); r1_done = 1; return 0; }
static void *R2(void *) { my_slow = 1; res->lockRead(); enter(false); usleep(20000); leave(false); res->unlockRead(); r2_done = 1; return 0; }
static void *W2(void *) { res->lockWrite(); enter(true); w2_in = 1; wait_until(w2_go, 10000); leave(true); res->unlockWrite(); return 0; }
static volatile int r3_in = 0, r3_go = 0, w2_done = 0, rb_in = 0;
static void *R3(void *) { res->lockRead(); enter(false); r3_in = 1; wait_until(r3_go, 10000); leave(false); res->unlockRead(); return 0; }
static void *W2c(void *) { res->lockWrite(); enter(true); w2_in = 1; usleep(50000); leave(true); res->unlockWrite(); w2_done = 1; return 0; }
static void *RH(void *) { res->lockRead(); enter(false); w_locked = 1; wait_until(w_go_unlock, 10000); leave(false); res->unlockRead(); return 0; }
static void *RB(void *) { res->lockRead(); rb_in = 1; enter(false); usleep(20000); leave(false); res->unlockRead(); return 0; }
// Scenario C: W holds; R1 parks; W2 parks; R3 parks behind the writer; W unlocks.  Violation: W2 inside with a reader.
static int scenario_c() {
    pthread_t tw, t1, t2, t3;
    pthread_create(&tw, 0, W, 0); if (!wait_until(w_locked)) return 2;
    pthread_create(&t1, 0, R1, 0); if (!wait_parked(1)) return 2;
    pthread_create(&t2, 0, W2c, 0); if (!wait_parked(2)) return 2;
    pthread_create(&t3, 0, R3, 0); if (!wait_parked(3)) return 2;
    w_go_unlock = 1; usleep(200000);
    if (overlap) { puts("CONFIRMED: a writer queued between two readers is inside the lock together with a reader"); fflush(stdout); _exit(1); }
    r1_go_unlock = 1; r3_go = 1; usleep(300000);
    if (overlap) { puts("CONFIRMED: a writer is inside the lock together with a reader"); fflush(stdout); _exit(1); }
    puts("NOT-REPRODUCED"); fflush(stdout); _exit(0);
}
// Scenario D: a reader holds; a writer parks; a later reader must queue behind the writer (no overtaking).
static int scenario_d() {
    pthread_t th, tw, tr;
    pthread_create(&th, 0, RH, 0); if (!wait_until(w_locked)) return 2;
    pthread_create(&tw, 0, W2c, 0); if (!wait_parked(1)) return 2;
    pthread_create(&tr, 0, RB, 0);
    usleep(200000);
    if (rb_in && !w2_done) { puts("CONFIRMED: a read request issued after a writer had parked was granted before that writer"); fflush(stdout); _exit(1); }
    w_go_unlock = 1; usleep(300000);
    puts("NOT-REPRODUCED"); fflush(stdout); _exit(0);
}
// Scenario E (C12): W holds; R1 parks; W unlocks; R1 is inside and stays; a new reader R2 arrives with no writer active or
// waiting.  Violation: R2 is not admitted while R1 holds.
static volatile int rq_in = 0;
static void *RQ(void *) { res->lockRead(); rq_in = 1; enter(false); usleep(20000); leave(false); res->unlockRead(); return 0; }
static int scenario_e() {
    pthread_t tw, t1, t2;
    pthread_create(&tw, 0, W, 0); if (!wait_until(w_locked)) return 2;
    pthread_create(&t1, 0, R3, 0); if (!wait_parked(1)) return 2;
    w_go_unlock = 1; if (!wait_until(r3_in)) return 2;         // R3 was queued, is admitted and stays inside
    pthread_create(&t2, 0, RQ, 0);
    bool in = wait_until(rq_in, 1500);
    if (!in) { puts("CONFIRMED: a reader arriving while only readers hold the lock (no writer active or waiting) was not admitted"); fflush(stdout); _exit(1); }
    r3_go = 1; usleep(100000);
    puts("NOT-REPRODUCED"); fflush(stdout); _exit(0);
}
// Scenario F (C01/C11): a first busy period in which a request had to queue, then the resource goes completely idle;
// in the second period a reader holds and a writer arrives.  Violation: the writer is admitted while the reader holds.
static int scenario_f() {
    pthread_t tw, t1, t2, t3;
    pthread_create(&tw, 0, W, 0); if (!wait_until(w_locked)) return 2;
    pthread_create(&t1, 0, R1, 0); if (!wait_parked(1)) return 2;
    w_go_unlock = 1; usleep(50000); r1_go_unlock = 1; if (!wait_until(r1_done)) return 2;    // idle again
    usleep(50000);
    pthread_create(&t2, 0, R3, 0); if (!wait_until(r3_in)) return 2;                         // second period: a reader holds
    pthread_create(&t3, 0, W2c, 0);
    usleep(300000);
    if (overlap || w2_in) { puts("CONFIRMED: in a later busy period a writer was admitted while a reader held the lock (stale admission bound)"); fflush(stdout); _exit(1); }
    r3_go = 1; usleep(200000);
    puts("NOT-REPRODUCED"); fflush(stdout); _exit(0);
}
int main(int argc, char **argv) {
    if (argc > 1 && !strcmp(argv[1], "E")) { res = new Resource(); return scenario_e(); }
    if (argc > 1 && !strcmp(argv[1], "F")) { res = new Resource(); return scenario_f(); }
    if (argc > 1 && !strcmp(argv[1], "C")) { res = new Resource(); return scenario_c(); }
    if (argc > 1 && !strcmp(argv[1], "D")) { res = new Resource(); return scenario_d(); }
    bool withW2 = argc > 1 && !strcmp(argv[1], "A");
    res = new Resource(); verif_shim::after_wakeup() = hook;
    pthread_t tw, t1, t2, t3;
    pthread_create(&tw, 0, W, 0); if (!wait_until(w_locked)) { puts("SETUP-FAILED"); return 2; }
    pthread_create(&t1, 0, R1, 0); if (!wait_parked(1)) { puts("SETUP-FAILED: R1 not parked"); return 2; }
    pthread_create(&t2, 0, R2, 0); if (!wait_parked(2)) { puts("SETUP-FAILED: R2 not parked"); return 2; }
    if (withW2) { pthread_create(&t3, 0, W2, 0); if (!wait_parked(3)) { puts("SETUP-FAILED: W2 not parked"); return 2; } }
    w_go_unlock = 1;                       // W releases: the read batch {R1, R2} is admitted
    if (!wait_until(slow_reached)) { puts("SETUP-FAILED: R2 did not wake"); return 2; }   // R2 woke, not yet resumed
    usleep(20000); r1_go_unlock = 1;       // R1 (already inside) leaves while R2 has not resumed
    if (!wait_until(r1_done)) { puts("NOT-REPRODUCED: R1 did not finish"); return 0; }
    if (withW2) { usleep(50000); }         // give W2 the chance to be admitted wrongly
    release_slow = 1;                      // now R2 resumes
    bool r2 = wait_until(r2_done, 2000);
    if (withW2) {
        if (overlap) { puts("CONFIRMED: a reader (admitted, slow to wake up) is inside the lock together with a writer admitted after its sibling left"); return 1; }
        w2_go = 1; puts("NOT-REPRODUCED"); return 0;
    }
    if (!r2) { puts("CONFIRMED: an admitted reader stays blocked forever after the lock became completely free (lost wake-up)"); return 1; }
    puts("NOT-REPRODUCED"); return 0;
}
