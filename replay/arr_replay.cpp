// Native replay of Array counterexamples against the real header (ASan/UBSan build).
// script lines: ptr N | list N | size N | fill N V | copy | move | assign N | massign N | resize N | resizefill N V | swap N
#include <fstream>
#include <iostream>
#include <sstream>
#include <vector>
#include <memory>
#include "lifetime_elem.hpp"
#include <tulz/container/Array.h>
using replay::TElem;
using Arr = tulz::Array<TElem>;
static std::vector<long> ref;
static long nextv = 100;
static void compare(Arr &a, const char *after) {
    if (a.size() != ref.size()) { replay::violation(std::string("size differs from the reference after ") + after); return; }
    for (size_t i = 0; i < ref.size(); i++) if (a[i].get() != ref[i]) { replay::violation(std::string("contents differ from the reference after ") + after); return; }
    size_t i = 0; for (auto &e : a) { if (e.get() != ref[i]) { replay::violation(std::string("iteration differs after ") + after); break; } i++; }
}
int main(int argc, char **argv) {
    if (argc < 2) return 2;
    std::ifstream in(argv[1]); std::string line; std::unique_ptr<Arr> a;
    while (std::getline(in, line)) {
        std::istringstream ls(line); std::string op; ls >> op; if (op.empty() || op[0] == '#') continue;
        size_t n = 0; long v = 0;
        if (op == "ptr") { ls >> n; std::vector<TElem> src; ref.clear(); for (size_t i = 0; i < n; i++) { src.emplace_back(nextv); ref.push_back(nextv++); } a.reset(new Arr(src.data(), n, true)); compare(*a, "pointer+length construction (source still alive)"); }
        else if (op == "size") { ls >> n; a.reset(new Arr(n)); ref.assign(n, 0); }
        else if (op == "fill") { ls >> n >> v; a.reset(new Arr(n, TElem(v))); ref.assign(n, v); }
        else if (op == "list") { a.reset(new Arr({TElem(1), TElem(2), TElem(3)})); ref = {1, 2, 3}; }
        else if (op == "copy") { std::unique_ptr<Arr> b(new Arr(*a)); a.swap(b); b.reset(); }
        else if (op == "move") { std::unique_ptr<Arr> b(new Arr(std::move(*a))); a.swap(b); b.reset(); }
        else if (op == "assign") { ls >> n; Arr b(n, TElem(7)); *a = b; ref.assign(n, 7); }
        else if (op == "massign") { ls >> n; Arr b(n, TElem(8)); *a = std::move(b); ref.assign(n, 8); }
        else if (op == "resize") { ls >> n; a->resize(n); ref.resize(n, 0); }
        else if (op == "resizefill") { ls >> n >> v; a->resize(n, TElem(v)); ref.resize(n, v); }
        else if (op == "swap") { ls >> n; Arr b(n, TElem(9)); a->swap(b); ref.assign(n, 9); }
        else { std::cerr << "unknown op\n"; return 2; }
        compare(*a, op.c_str());
    }
    a.reset();
    if (replay::live_values() != 0) replay::violation("after destruction " + std::to_string(replay::live_values()) + " element(s) that still hold a value were never destroyed");
    if (replay::violations().empty()) { std::cout << "NOT-REPRODUCED\n"; return 0; }
    for (auto &x : replay::violations()) std::cout << "CONFIRMED: " << x << "\n";
    return 1;
}
