// Native replay for C20: the real Thread.h/Thread.cpp against the shim <thread>; the new thread is scheduled late, after
// start() has returned and the starter's frames were reused.
#include <thread>
#include <cstdio>
#include <cstring>
#include <src/threading/Thread.cpp>
#include <src/threading/Runnable.cpp>
static volatile int result = 0;
static void callee(int &x) { x = 42; result = 1; }
struct Big { long payload[8]; void operator()(int &x) const { x = (int) payload[7]; result = 1; } };
__attribute__((noinline)) static void starter_fp(tulz::Thread &t, int &x) { t.start(&callee, x); }
__attribute__((noinline)) static void starter_big(tulz::Thread &t, int &x) { Big b; for (int i = 0; i < 8; i++) b.payload[i] = 40 + i; t.start(b, x); }
__attribute__((noinline)) static void reuse_stack() { volatile char junk[8192]; memset((void*) junk, 0x5A, sizeof(junk)); }
int main(int argc, char **argv) {
    verif_shim::start_delay_us() = 100000;
    bool big = argc > 1 && !strcmp(argv[1], "big");
    tulz::Thread t; int x = 0;
    if (big) starter_big(t, x); else starter_fp(t, x);
    reuse_stack();
    t.join();
    int want = big ? 47 : 42;
    if (!result || x != want || !t.isFinished()) { puts("CONFIRMED: the new thread did not run the caller's callable on a live copy (wrong result)"); return 1; }
    puts("NOT-REPRODUCED"); return 0;
}
