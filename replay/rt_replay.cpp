// Native replay for C06/C13: the real SubjectRouter against a reference matcher, for three argument signatures.
//   rt_replay notify     subscriptions under six keys, nine patterns (concrete, regex, wildcard at every level), arguments
//                        int, a trivially copyable struct and std::string, all passed by value (as temporaries)
//   rt_replay shrink     deliveries / exists / depth before and after shrink for the same patterns
// Exit 1 and a line "CONFIRMED: ..." when the real code disagrees with the reference.
#include <tulz/observer/routing/SubjectRouter.h>
#include <tulz/observer/routing/RoutingKeyBuilder.h>
#include <cstdio>
#include <cstring>
#include <regex>
#include <string>
#include <variant>
#include <vector>
#include <algorithm>
using namespace tulz;
using Pat = std::vector<std::variant<std::string, std::string>>;    // index 0: literal level, index 1: regex source
struct P { long a, b; };
static RoutingKey build(const std::vector<std::pair<bool, std::string>> &lv) {
    RoutingKeyBuilder b; for (auto &[rx, s] : lv) { if (rx) b.level(std::regex(s)); else b.level(s); } return b.build();
}
static bool matches(const std::vector<std::string> &key, const std::vector<std::pair<bool, std::string>> &pat) {
    if (key.size() != pat.size()) return false;
    for (size_t i = 0; i < key.size(); i++) { if (pat[i].first ? !std::regex_match(key[i], std::regex(pat[i].second)) : key[i] != pat[i].second) return false; }
    return true;
}
template <class T, class Mk, class Eq> static int run(const char *what, Mk mk, Eq eq) {
    std::vector<std::vector<std::string>> keys = {{"a"}, {"a", "b"}, {"a", "c"}, {"a", "b", "d"}, {"x", "b"}, {"x", "y", "z"}};
    std::vector<std::vector<std::pair<bool, std::string>>> pats = {
        {{false, "a"}}, {{false, "a"}, {false, "b"}}, {{false, "a"}, {true, ".+"}}, {{true, ".+"}, {false, "b"}}, {{true, ".+"}, {true, ".+"}},
        {{true, "[ax]"}, {true, "[by]"}, {true, ".+"}}, {{false, "a"}, {false, "zz"}}, {{true, ".+"}}, {{false, "a"}, {true, "b|c"}}};
    int bad = 0;
    SubjectRouter r; std::vector<Subscription<T>> subs; std::vector<std::vector<T>> got(keys.size());
    for (size_t i = 0; i < keys.size(); i++) {
        std::vector<std::pair<bool, std::string>> lv; for (auto &s : keys[i]) lv.push_back({false, s});
        subs.push_back(r.template subscribe<T>(build(lv), [&got, i](T v) { got[i].push_back(v); }));
    }
    for (size_t p = 0; p < pats.size(); p++) {
        for (auto &g : got) g.clear();
        size_t n = r.notify(build(pats[p]), mk());        // a temporary: Args = T
        size_t want = 0;
        for (size_t i = 0; i < keys.size(); i++) {
            bool m = matches(keys[i], pats[p]); want += m;
            if (got[i].size() != (m ? 1u : 0u)) { printf("CONFIRMED: %s pattern %zu: observer under key %zu invoked %zu time(s), expected %d\n", what, p, i, got[i].size(), (int) m); bad = 1; }
            else if (m && !eq(got[i][0])) { printf("CONFIRMED: %s pattern %zu: observer under key %zu received a wrong argument value\n", what, p, i); bad = 1; }
        }
        if (n != want) { printf("CONFIRMED: %s pattern %zu: notify returned %zu, %zu keys match\n", what, p, n, want); bad = 1; }
    }
    return bad;
}
// shrink must be invisible to delivery: for every subset of dead subscriptions and every shrink pattern, the deliveries
// after the shrink are those of the reference; live keys and their prefixes still exist; depth covers the longest live key
static int run_shrink() {
    std::vector<std::vector<std::string>> keys = {{"a"}, {"a", "b"}, {"a", "c"}, {"a", "b", "d"}, {"x", "b"}, {"x", "y", "z"}};
    std::vector<std::vector<std::pair<bool, std::string>>> pats = {
        {{false, "a"}}, {{false, "a"}, {false, "b"}}, {{false, "a"}, {true, ".+"}}, {{true, ".+"}, {false, "b"}}, {{true, ".+"}, {true, ".+"}},
        {{true, ".+"}, {true, ".+"}, {true, ".+"}}, {{false, "a"}, {false, "zz"}}, {{true, ".+"}}, {{false, "x"}, {true, "y"}, {false, "z"}}};
    int bad = 0;
    for (unsigned dead = 0; dead < 64 && !bad; dead++) for (size_t sp = 0; sp < pats.size() && !bad; sp++) {
        SubjectRouter r; std::vector<Subscription<>> subs; std::vector<int> got(keys.size());
        for (size_t i = 0; i < keys.size(); i++) {
            std::vector<std::pair<bool, std::string>> lv; for (auto &s : keys[i]) lv.push_back({false, s});
            subs.push_back(r.subscribe<>(build(lv), [&got, i]() { got[i]++; }));
        }
        for (size_t i = 0; i < keys.size(); i++) if (dead >> i & 1) subs[i].unsubscribe();
        r.shrink(build(pats[sp]));
        size_t longest = 0;
        for (size_t i = 0; i < keys.size(); i++) if (!(dead >> i & 1)) {
            longest = std::max(longest, keys[i].size());
            for (size_t len = 1; len <= keys[i].size(); len++) {
                std::vector<std::pair<bool, std::string>> lv; for (size_t j = 0; j < len; j++) lv.push_back({false, keys[i][j]});
                if (!r.exists(build(lv))) { printf("CONFIRMED: dead=%u shrink pattern %zu: prefix %zu of live key %zu no longer exists\n", dead, sp, len, i); bad = 1; }
            }
        }
        if (r.depth() < 1 + longest + 0) { printf("CONFIRMED: dead=%u shrink pattern %zu: depth %zu below the longest live key %zu\n", dead, sp, r.depth(), longest); bad = 1; }
        for (size_t p = 0; p < pats.size(); p++) {
            for (auto &g : got) g = 0;
            r.notify(build(pats[p]));
            for (size_t i = 0; i < keys.size(); i++) {
                int want = (!(dead >> i & 1) && matches(keys[i], pats[p])) ? 1 : 0;
                if (got[i] != want) { printf("CONFIRMED: dead=%u shrink pattern %zu, notify pattern %zu: observer under key %zu invoked %d time(s), expected %d\n", dead, sp, p, i, got[i], want); bad = 1; }
            }
        }
    }
    return bad;
}
int main(int argc, char **argv) {
    int bad = 0;
    if (argc > 1 && !strcmp(argv[1], "shrink")) { bad = run_shrink(); if (!bad) puts("NOT-REPRODUCED"); return bad; }
    bad |= run<int>("int", [] { return 5; }, [](int v) { return v == 5; });
    bad |= run<P>("struct", [] { return P{7, 9}; }, [](P v) { return v.a == 7 && v.b == 9; });
    bad |= run<std::string>("std::string", [] { return std::string("a string long enough to live on the heap"); }, [](const std::string &v) { return v == "a string long enough to live on the heap"; });
    if (!bad) puts("NOT-REPRODUCED");
    return bad;
}
