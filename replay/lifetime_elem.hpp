// Element type with an observable lifetime for native replay of verifier counterexamples.
// The lifetime state is stored in-band (it moves with bitwise relocation, like the specification
// element of the proofs); balance of constructions and destructions is kept in global counters.
#pragma once
#include <cstdint>
#include <cstdio>
#include <cstdlib>
#include <string>
#include <vector>
namespace replay {
constexpr uint64_t M_LIVE = 0x11FE11FE5EED0001ull, M_SHELL = 0x11FE11FE5EED0002ull, M_DEAD = 0xDEADDEADDEAD0000ull;
inline long &constructed() { static long n = 0; return n; }
inline long &destroyed() { static long n = 0; return n; }
inline long &live_values() { static long n = 0; return n; }   // objects holding a value (not moved-from)
inline std::vector<std::string>& violations() { static std::vector<std::string> v; return v; }
inline void violation(const std::string &s) { for (auto &x : violations()) if (x == s) return; violations().push_back(s); }
struct TElem {
    long *cell; uint64_t magic;      // the value lives in an owned heap cell, as in std::string and friends
    TElem() : cell(new long(0)) { born(); }
    TElem(long x) : cell(new long(x)) { born(); }
    TElem(const TElem &o) : cell(nullptr) { o.readable("copy-construct from"); cell = new long(o.get()); born(); }
    TElem(TElem &&o) noexcept : cell(nullptr) { o.readable("move-construct from"); cell = o.cell; o.cell = nullptr; born(); o.shell(); }
    TElem& operator=(const TElem &o) { o.readable("copy-assign from"); object("assign onto"); if (&o != this) { long x = o.get(); delete cell; cell = new long(x); } revive(); return *this; }
    TElem& operator=(TElem &&o) noexcept { o.readable("move-assign from"); object("assign onto"); if (&o != this) { delete cell; cell = o.cell; o.cell = nullptr; o.shell(); } revive(); return *this; }
    ~TElem() {
        if (magic != M_LIVE && magic != M_SHELL) { violation("destructor runs on storage that holds no object"); return; }
        if (magic == M_LIVE) live_values()--;
        delete cell; cell = nullptr;
        magic = M_DEAD; destroyed()++;
    }
    long get() const { return cell ? *cell : -999; }
    bool operator==(const TElem &o) const { return get() == o.get(); }
private:
    void born() { magic = M_LIVE; constructed()++; live_values()++; }
    void shell() { if (magic == M_LIVE) live_values()--; magic = M_SHELL; }
    void revive() { if (magic != M_LIVE) live_values()++; magic = M_LIVE; }
    void readable(const char *what) const { if (magic != M_LIVE && magic != M_SHELL) violation(std::string(what) + " storage that holds no object"); }
    void object(const char *what) const { if (magic != M_LIVE && magic != M_SHELL) violation(std::string(what) + " storage that holds no object"); }
};
}
