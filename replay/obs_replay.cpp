// Native replay aid for C16: the real Observable with int / double-with-tolerance / std::string and three equalities
// (std::equal_to, "always equal", "never equal").  Exit 1 + "CONFIRMED: ..." when a clause of the property fails.
#include <tulz/observer/Observable.h>
#include <cstdio>
#include <string>
#include <cmath>
using namespace tulz;
static int bad = 0;
static void fail(const std::string &w) { if (bad < 12) printf("CONFIRMED: %s\n", w.c_str()); ++bad; }
struct Always { bool operator()(const int &, const int &) const { return true; } };
struct Never { bool operator()(const int &, const int &) const { return false; } };
struct Tol { bool operator()(const double &a, const double &b) const { return std::fabs(a - b) < 1.5; } };
template<typename O, typename T, typename F>
static void expect(const char *what, O &o, F &&op, int wantCalls, T wantVal) {
    int calls = 0; T seen{};
    auto sub = o.subscribe([&](T &v) { ++calls; seen = v; });
    op(o);
    if (calls != wantCalls) fail(std::string(what) + ": " + std::to_string(calls) + " notification(s), expected " + std::to_string(wantCalls));
    else if (wantCalls == 1 && !(seen == wantVal)) fail(std::string(what) + ": notified with a value that is not the new value");
    if (!(o.value() == wantVal)) fail(std::string(what) + ": stored value is wrong");
    sub.unsubscribe();
}
int main() {
    { Observable<int> o(5);
      expect<decltype(o), int>("int = same", o, [](auto &x) { x = 5; }, 0, 5);
      expect<decltype(o), int>("int = other", o, [](auto &x) { x = 7; }, 1, 7);
      expect<decltype(o), int>("int += 0", o, [](auto &x) { x += 0; }, 0, 7);
      expect<decltype(o), int>("int += 3", o, [](auto &x) { x += 3; }, 1, 10);
      expect<decltype(o), int>("int -= 4", o, [](auto &x) { x -= 4; }, 1, 6);
      expect<decltype(o), int>("int *= 1", o, [](auto &x) { x *= 1; }, 0, 6);
      expect<decltype(o), int>("int *= 2", o, [](auto &x) { x *= 2; }, 1, 12);
      expect<decltype(o), int>("int /= 3", o, [](auto &x) { x /= 3; }, 1, 4);
      expect<decltype(o), int>("++int", o, [](auto &x) { ++x; }, 1, 5);
      expect<decltype(o), int>("int++", o, [](auto &x) { if (x++ != 5) fail("int++ returned the wrong value"); }, 1, 6);
      expect<decltype(o), int>("--int", o, [](auto &x) { --x; }, 1, 5);
      expect<decltype(o), int>("int--", o, [](auto &x) { if (x-- != 5) fail("int-- returned the wrong value"); }, 1, 4);
      expect<decltype(o), int>("apply", o, [](auto &x) { x.apply([](int &v) { v = 40; }); }, 1, 40); }
    { Observable<int, Always> o(5);      // an equality that calls everything equal: = and compound operators never notify, ++/-- always do
      expect<decltype(o), int>("always-equal: = other", o, [](auto &x) { x = 9; }, 0, 5);
      expect<decltype(o), int>("always-equal: += 3", o, [](auto &x) { x += 3; }, 0, 8);
      expect<decltype(o), int>("always-equal: ++", o, [](auto &x) { ++x; }, 1, 9);
      expect<decltype(o), int>("always-equal: --", o, [](auto &x) { --x; }, 1, 8);
      expect<decltype(o), int>("always-equal: post++", o, [](auto &x) { x++; }, 1, 9);
      expect<decltype(o), int>("always-equal: post--", o, [](auto &x) { x--; }, 1, 8); }
    { Observable<int, Never> o(5);
      expect<decltype(o), int>("never-equal: = same", o, [](auto &x) { x = 5; }, 1, 5);
      expect<decltype(o), int>("never-equal: += 0", o, [](auto &x) { x += 0; }, 1, 5); }
    { Observable<double, Tol> o(10.0);
      expect<decltype(o), double>("tolerance: = 10.5", o, [](auto &x) { x = 10.5; }, 0, 10.0);
      expect<decltype(o), double>("tolerance: = 12", o, [](auto &x) { x = 12.0; }, 1, 12.0);
      expect<decltype(o), double>("tolerance: --", o, [](auto &x) { --x; }, 1, 11.0);
      expect<decltype(o), double>("tolerance: ++", o, [](auto &x) { ++x; }, 1, 12.0); }
    { Observable<std::string> o(std::string("ab"));
      expect<decltype(o), std::string>("string = same", o, [](auto &x) { x = std::string("ab"); }, 0, std::string("ab"));
      expect<decltype(o), std::string>("string += c", o, [](auto &x) { x += std::string("c"); }, 1, std::string("abc"));
      expect<decltype(o), std::string>("string += empty", o, [](auto &x) { x += std::string(""); }, 0, std::string("abc")); }
    if (bad) { printf("%d violation(s)\n", bad); return 1; }
    printf("NOT-REPRODUCED\n");
    return 0;
}
