// Native replay aid for C07 (task ownership): the real ThreadPool with real threads; every task records its life events.
//   tp_tasks_replay stop  : one worker busy in task 0, three tasks queued, then stop()
//   tp_tasks_replay clear : task destructors take 250 ms; clear() while the worker is about to become idle
// Exit 1 + "CONFIRMED: ..." when a task is run twice, run while/after being destroyed, destroyed twice or never.
#include <tulz/threading/ThreadPool.h>
#include <tulz/threading/Runnable.h>
#include <atomic>
#include <chrono>
#include <cstdio>
#include <cstring>
#include <thread>
#include <unistd.h>
using namespace std::chrono_literals;
enum { QUEUED, RUNNING, FINISHED, DESTROYING, DESTROYED };
static const int N = 4;
static std::atomic<int> st[N], runs[N], dtors[N];
static std::atomic<bool> started{false}, release{false};
static bool slow_dtor = false;
[[noreturn]] static void confirmed(const char *what, int id) { printf("CONFIRMED: task %d %s\n", id, what); fflush(stdout); _exit(1); }
struct Task : tulz::Runnable {
    int id; explicit Task(int i) : id(i) {}
    static void operator delete(void *) {}          // events only: do not depend on what the allocator does with a double free
    ~Task() override {
        int prev = st[id].exchange(DESTROYING);
        if (prev == RUNNING) confirmed("is destroyed while its run() is executing", id);
        if (prev == DESTROYING || prev == DESTROYED) confirmed("is destroyed a second time", id);
        ++dtors[id];
        if (slow_dtor && id != 0) std::this_thread::sleep_for(250ms);
        st[id] = DESTROYED;
    }
    void run() override {
        int prev = st[id].exchange(RUNNING);
        if (prev == DESTROYING) confirmed("starts running while it is being destroyed", id);
        if (prev == DESTROYED) confirmed("starts running after it was destroyed", id);
        if (prev == RUNNING || prev == FINISHED) confirmed("is executed a second time", id);
        ++runs[id];
        if (id == 0) { started = true; if (slow_dtor) std::this_thread::sleep_for(100ms); else while (!release) std::this_thread::sleep_for(1ms); }
        st[id] = FINISHED;
    }
};
int main(int argc, char **argv) {
    bool clear = argc > 1 && !strcmp(argv[1], "clear");
    slow_dtor = clear;
    for (int i = 0; i < N; ++i) st[i] = QUEUED;
    tulz::ThreadPool pool; pool.setMaxThreadCount(1); pool.setExpiryTimeout(-1);
    pool.start(new Task(0));
    while (!started) std::this_thread::sleep_for(1ms);
    for (int i = 1; i < N; ++i) pool.start(new Task(i));
    if (clear) { pool.clear(); std::this_thread::sleep_for(200ms); pool.stop(); }
    else { std::thread rel([] { std::this_thread::sleep_for(150ms); release = true; }); pool.stop(); rel.join(); }
    int bad = 0;
    for (int i = 0; i < N; ++i) {
        if (runs[i] > 1) { printf("CONFIRMED: task %d was executed %d times\n", i, (int) runs[i]); ++bad; }
        if (dtors[i] != 1) { printf("CONFIRMED: task %d was destroyed %d times (expected exactly once)\n", i, (int) dtors[i]); ++bad; }
    }
    if (bad) return 1;
    puts("NOT-REPRODUCED");
    return 0;
}
