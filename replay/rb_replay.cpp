// Native replay of RingBuffer counterexamples against the real header (built with ASan/UBSan).
// usage: rb_replay <script>   script lines:  overwrite 0|1 / state CAP HEAD SIZE / pb V / pf V / ob / of / rs N /
//        ca CAP HEAD SIZE (copy-assign from such a buffer) / cc / mc / ma CAP HEAD SIZE / eq / it
#include <deque>
#include <fstream>
#include <iostream>
#include <sstream>
#include <memory>
#include "lifetime_elem.hpp"
#include <tulz/container/RingBuffer.h>
using replay::TElem;
static long g_next = 100;
template<bool OW> struct Run {
    using RB = tulz::RingBuffer<TElem, OW>;
    std::unique_ptr<RB> rb; std::deque<long> ref; size_t cap = 0;
    static void build(std::unique_ptr<RB> &b, std::deque<long> &r, size_t cap, size_t head, size_t size) {
        b.reset(new RB(cap)); r.clear();
        for (size_t i = 0; i < head; i++) b->push_back(TElem(-1));
        for (size_t i = 0; i < head; i++) b->pop_front();
        for (size_t i = 0; i < size; i++) { long v = g_next++; b->push_back(TElem(v)); r.push_back(v); }
    }
    void compare(const char *after) {
        if (rb->size() != ref.size()) { replay::violation(std::string("size differs from the reference deque after ") + after); return; }
        if (rb->capacity() != cap) replay::violation(std::string("capacity differs after ") + after);
        for (size_t i = 0; i < ref.size(); i++) if ((*rb)[i].get() != ref[i]) { replay::violation(std::string("contents differ from the reference deque after ") + after); return; }
        size_t i = 0; for (auto &e : *rb) { if (e.get() != ref[i]) { replay::violation(std::string("iteration differs after ") + after); break; } i++; }
        if (replay::live_values() < (long)ref.size()) replay::violation(std::string("a logically present element is not alive after ") + after);
    }
    int run(std::istream &in) {
        std::string line;
        while (std::getline(in, line)) {
            std::istringstream ls(line); std::string op; ls >> op;
            if (op.empty() || op[0] == '#' || op == "overwrite") continue;
            if (op == "state") { size_t c, h, s; ls >> c >> h >> s; cap = c; build(rb, ref, c, h, s); }
            else if (op == "pb") { long v; ls >> v; bool full = ref.size() == cap; TElem &r = rb->push_back(TElem(v)); if (full) ref.pop_front(); ref.push_back(v); if (&r != &rb->back() || r.get() != v) replay::violation("push_back does not return the inserted element"); }
            else if (op == "pf") { long v; ls >> v; bool full = ref.size() == cap; TElem &r = rb->push_front(TElem(v)); if (full) ref.pop_back(); ref.push_front(v); if (&r != &rb->front() || r.get() != v) replay::violation("push_front does not return the inserted element"); }
            else if (op == "ob") { TElem e = rb->pop_back(); if (e.get() != ref.back()) replay::violation("pop_back returns a wrong value"); ref.pop_back(); }
            else if (op == "of") { TElem e = rb->pop_front(); if (e.get() != ref.front()) replay::violation("pop_front returns a wrong value"); ref.pop_front(); }
            else if (op == "rs") { size_t n; ls >> n; rb->resize(n); cap = n; while (ref.size() > n) ref.pop_back(); }
            else if (op == "ca") { size_t c, h, s; ls >> c >> h >> s; std::unique_ptr<RB> o; std::deque<long> r2; build(o, r2, c, h, s); *rb = *o; ref = r2; cap = c; compare("copy assignment (before the source is destroyed)"); o.reset(); }
            else if (op == "cc") { std::unique_ptr<RB> o(new RB(*rb)); rb.swap(o); o.reset(); }
            else if (op == "mc") { std::unique_ptr<RB> o(new RB(std::move(*rb))); rb.swap(o); o.reset(); }
            else if (op == "ma") { size_t c, h, s; ls >> c >> h >> s; std::unique_ptr<RB> o; std::deque<long> r2; build(o, r2, c, h, s); *rb = std::move(*o); ref = r2; cap = c; o.reset(); }
            else if (op == "eq") { RB o(*rb); if (!(*rb == o)) replay::violation("a buffer is not equal to its copy"); }
            else { std::cerr << "unknown op " << op << "\n"; return 2; }
            if (op != "state") compare(op.c_str());
        }
        rb.reset();
        if (replay::live_values() != 0)
            replay::violation("after the buffer was destroyed " + std::to_string(replay::live_values()) + " element(s) that still hold a value were never destroyed");
        return 0;
    }
};
int main(int argc, char **argv) {
    if (argc < 2) return 2;
    std::ifstream in(argv[1]); std::string first; bool ow = true;
    { std::ifstream peek(argv[1]); std::string l; while (std::getline(peek, l)) { std::istringstream ls(l); std::string op; ls >> op; if (op == "overwrite") { int b; ls >> b; ow = b; } } }
    int rc = ow ? Run<true>().run(in) : Run<false>().run(in);
    if (rc) return rc;
    if (replay::violations().empty()) { std::cout << "NOT-REPRODUCED\n"; return 0; }
    for (auto &v : replay::violations()) std::cout << "CONFIRMED: " << v << "\n";
    return 1;
}
