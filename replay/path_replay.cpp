// Native replay aid for C18 (string and visitor clauses): the real Path / DirectoryVisitor over a systematic family of
// directory strings and names.  Exit 1 + "CONFIRMED: ..." when a clause of the property fails on the real code.
#include <tulz/Path.h>
#include <tulz/DirectoryVisitor.h>
#include <cstdio>
#include <string>
#include <vector>
#include <unistd.h>
#include <cstdlib>
#include <sys/stat.h>
using namespace tulz;
static int bad = 0;
static void fail(const std::string &what) { if (bad < 12) printf("CONFIRMED: %s\n", what.c_str()); ++bad; }
static std::string cwd() { char b[8192]; return getcwd(b, sizeof b) ? b : ""; }
int main() {
    std::vector<std::string> segs = {"a", "dir", "x y", "..", ".", "a.b", "\xc3\xa9", "0"};
    std::vector<std::string> dirs;
    for (auto &lead : {std::string(""), std::string("/")})
        for (auto &s1 : segs) {
            dirs.push_back(lead + s1); dirs.push_back(lead + s1 + "/");
            for (auto &s2 : segs) { dirs.push_back(lead + s1 + "/" + s2); dirs.push_back(lead + s1 + "/" + s2 + "/"); dirs.push_back(lead + s1 + "//" + s2); }
        }
    dirs.push_back("/"); dirs.push_back("//");
    std::vector<std::string> names = {"n", "name.txt", "x y", "..", ".", ".hidden", "\xc3\xa9\xc3\xa9", "0"};
    for (auto &d : dirs) for (auto &n : names) {
        std::string j = Path::join(d, n);
        std::string name = Path(j).getPathName(), par = Path(j).getParentDirectory().toString();
        std::string want = d.back() == '/' ? d.substr(0, d.size() - 1) : d;
        if (name != n) fail("name of join(\"" + d + "\", \"" + n + "\") = \"" + j + "\" is \"" + name + "\"");
        if (par != want) fail("parent of join(\"" + d + "\", \"" + n + "\") = \"" + j + "\" is \"" + par + "\", expected \"" + want + "\"");
    }
    std::vector<std::string> lefts = dirs; lefts.push_back("");
    for (auto &x : lefts) for (auto &a : dirs) if (!a.empty() && a[0] == '/') {
        if (Path::join(x, a) != a) fail("join(\"" + x + "\", \"" + a + "\") is \"" + Path::join(x, a) + "\", not the absolute right operand");
        if (!Path(a).isAbsolute()) fail("\"" + a + "\" is not reported absolute");
    }
    for (auto &b : dirs) if (Path::join("", b) != b) fail("join(\"\", \"" + b + "\") is not the right operand");
    // every string, including the empty one and single characters: no exception, no access outside the string (ASan)
    for (auto &s : std::vector<std::string>{"", "/", "\\", "a", "//", "a/", "/a", "a//", "///"}) {
        try { (void) Path(s).getPathName(); (void) Path(s).getParentDirectory(); }
        catch (...) { fail("getPathName/getParentDirectory threw on \"" + s + "\""); }
    }
    // listChildren: every entry exactly once, except "." and ".."
    { char t2[] = "/tmp/path_replay_ls_XXXXXX";
      if (mkdtemp(t2)) {
        std::vector<std::string> want = {"a", ".hidden", "..data", "...", "x y", "..", "trailing.", "\xc3\xa9"};
        want.erase(want.begin() + 5);
        for (auto &w : want) { FILE *f = fopen((std::string(t2) + "/" + w).c_str(), "w"); if (f) fclose(f); }
        std::vector<std::string> got;
        for (auto &c : Path(std::string(t2)).listChildren()) got.push_back(c.toString());
        for (auto &w : want) { int n = 0; for (auto &g : got) if (g == w) ++n; if (n != 1) fail("listChildren returned the entry \"" + w + "\" " + std::to_string(n) + " times"); }
        for (auto &g : got) if (g == "." || g == "..") fail("listChildren returned \"" + g + "\"");
        for (auto &w : want) remove((std::string(t2) + "/" + w).c_str());
        rmdir(t2);
      } }
    // DirectoryVisitor
    std::string before = cwd();
    char tmpl[] = "/tmp/path_replay_XXXXXX";
    if (mkdtemp(tmpl)) {
        { DirectoryVisitor v{Path(std::string(tmpl))}; if (cwd() != tmpl) fail("the visitor did not enter the directory"); if (chdir("/") != 0) {} }
        if (cwd() != before) fail("after ~DirectoryVisitor the working directory is \"" + cwd() + "\", was \"" + before + "\"");
        { DirectoryVisitor v; }
        if (cwd() != before) fail("a visitor without a directory changed the working directory");
        { DirectoryVisitor v{Path(std::string(""))}; }
        if (cwd() != before) fail("a visitor on the empty path changed the working directory");
        if (chdir(before.c_str()) != 0) {}
        rmdir(tmpl);
    }
    if (bad) { printf("%d violation(s)\n", bad); return 1; }
    printf("NOT-REPRODUCED\n");
    return 0;
}
