// Native replay for C05/C10: the real Subject.h under AddressSanitizer, compared with a reference simulation of the round.
//   subj_replay pure <n> <k> <mute> <valid>     observer k (subscription order) is muted / invalidated before notify(7)
//   subj_replay reent <n> <k> <action>           observer k's callback does <action> during notify(7):
//        self_unsub | unsub_next | unsub_prev | self_invalidate | subscribe_new | self_mute | swap_next (unsub_next + subscribe_new)
//   subj_replay handle foreign|stale           unsubscribe through another subject's handle / an already used handle must throw
// Exit 1 and a line "CONFIRMED: ..." when the real code disagrees with the reference (ASan reports memory errors itself).
#include <tulz/observer/Subject.h>
#include <tulz/observer/EternalObserver.h>
#include <cstdio>
#include <cstdlib>
#include <cstring>
#include <string>
#include <vector>
using Subj = tulz::Subject<int>;
using Sub = tulz::Subscription<int>;
static int destroyed[64];
struct Tracked : tulz::EternalObserver<int> {
    int idx;
    Tracked(int i, std::function<void(int)> f) : tulz::EternalObserver<int>(std::move(f)), idx(i) {}
    ~Tracked() override { destroyed[idx]++; }
};
int main(int argc, char **argv) {
    if (argc >= 3 && !strcmp(argv[1], "handle")) {
        Subj a, b; int ca = 0, cb = 0, thrown = 0;
        Sub ha = a.subscribe([&](int) { ca++; }), hb = b.subscribe([&](int) { cb++; }), h2 = a.subscribe([&](int) { ca += 10; });
        if (!strcmp(argv[2], "foreign")) {
            try { a.unsubscribe(hb); } catch (const std::invalid_argument &) { thrown = 1; }
        } else {
            a.unsubscribe(ha);
            try { a.unsubscribe(ha); } catch (const std::invalid_argument &) { thrown = 1; }
            ca = 1;
        }
        a.notify(1); b.notify(1);
        bool ok = thrown && hb.isValid() && h2.isValid() && cb == 1 && ca == 11 + (strcmp(argv[2], "foreign") ? 0 : 0);
        if (!ok) { printf("CONFIRMED: %s handle: thrown=%d hb.valid=%d h2.valid=%d calls a=%d b=%d\n", argv[2], thrown, (int) hb.isValid(), (int) h2.isValid(), ca, cb); return 1; }
        puts("NOT-REPRODUCED"); return 0;
    }
    if (argc < 4) return 2;
    std::string mode = argv[1]; int n = atoi(argv[2]), k = atoi(argv[3]);
    if (n < 1 || n > 32 || k < 0 || k >= n) return 2;
    std::string action = mode == "reent" && argc > 4 ? argv[4] : "";
    Subj subject; std::vector<Sub> subs(n + 1); std::vector<std::vector<int>> log(n + 1);
    bool late_subscribed = false;
    for (int i = 0; i < n; i++) {
        subs[i] = subject.subscribe(new Tracked(i, [&, i](int v) {
            // the callback may destroy the observer that owns this closure: copy what is needed out of it first
            const int me = i, kk = k, nn = n; const std::string act = action; auto *S = &subs; auto *L = &log; bool *late = &late_subscribed; Subj *sj = &subject;
            (*L)[me].push_back(v);
            if (me != kk) return;
            if (act == "self_unsub") (*S)[me].unsubscribe();
            else if ((act == "unsub_next" || act == "swap_next") && me + 1 < nn) (*S)[me + 1].unsubscribe();
            else if (act == "unsub_prev" && me > 0) (*S)[me - 1].unsubscribe();
            else if (act == "self_invalidate") (*S)[me].getObserver()->invalidate();
            else if (act == "self_mute") (*S)[me].mute();
            if ((act == "subscribe_new" || act == "swap_next") && !*late) { *late = true; (*S)[nn] = sj->subscribe(new Tracked(nn, [L, nn](int w) { (*L)[nn].push_back(w); })); }
        }));
    }
    bool mute = false, valid = true;
    if (mode == "pure") { mute = argc > 4 && atoi(argv[4]); valid = !(argc > 5) || atoi(argv[5]); if (mute) subs[k].mute(); if (!valid) subs[k].getObserver()->invalidate(); }
    subject.notify(7);
    // reference: who must have been called exactly once with 7 in this round
    int bad = 0;
    for (int i = 0; i <= n; i++) {
        size_t want = i < n ? 1 : 0;
        if (mode == "pure" && i == k && (mute || !valid)) want = 0;
        if (mode == "reent" && (action == "unsub_next" || action == "swap_next") && i == k + 1) want = 0;
        if (log[i].size() != want || (want && log[i][0] != 7)) { printf("CONFIRMED: observer %d was invoked %zu time(s), expected %zu\n", i, log[i].size(), want); bad = 1; }
    }
    for (int i = 0; i < n; i++) {
        int want = 0;
        if (mode == "pure" && i == k && !valid) want = 1;
        if (mode == "reent" && ((action == "self_unsub" && i == k) || ((action == "unsub_next" || action == "swap_next") && i == k + 1) || (action == "unsub_prev" && i == k - 1) || (action == "self_invalidate" && i == k))) want = 1;
        if (destroyed[i] != want) { printf("CONFIRMED: observer %d destroyed %d time(s) during the round, expected %d\n", i, destroyed[i], want); bad = 1; }
        if (subs[i].isValid() != (want == 0)) { printf("CONFIRMED: handle %d reports validity %d\n", i, (int) subs[i].isValid()); bad = 1; }
    }
    if (!bad) puts("NOT-REPRODUCED");
    return bad;
}
