/* Prelude for the lowered SubjectRouter translation unit (assumed side, DESIGN.md 5 C06/C13).
 *
 * Strings are abstracted to their identity: two strings are equal iff they carry the same id, and std::map orders
 * its keys by id.  A std::regex is an id; whether it matches a name is an uninterpreted fact recorded as a ghost of the
 * node that bears the name (g_rxm).  std::map<std::string, Node> is an array of entries sorted by key, of symbolic
 * length; each Node owns exactly one such map, so the ghost fields kept in struct CMap are per-node ghost fields:
 * they hold the VALUES OF THE RECURSIVE SPECIFICATION FUNCTIONS at that node for the routing key under consideration.
 */
#ifndef VERIF_RT_PRELUDE_H
#define VERIF_RT_PRELUDE_H
#include <stddef.h>
#include <stdint.h>
#include <stdlib.h>
_Bool nondet_bool(void);
size_t nondet_size(void);
struct Node;
struct Str { size_t id;                                       /* std::string */
             _Bool g_rxm; };  /* ghost, for the name of a node: value of regex_match(this name, regex of the node's level) */
struct SV { size_t id; const struct Str *src; };             /* std::string_view: id plus the string it views */
struct Rx { size_t id; };                                    /* std::regex */
struct Lvl { _Bool is_rx; struct Str s; struct Rx rx; };     /* std::variant<std::string, std::regex> */
struct LvlVec { struct Lvl *items; size_t len; };            /* std::vector<RoutingKeyLevel> */
/* tulz::Subject<...>: external here (C05).  sig = the argument signature it was created with */
enum { SIG_NONE = 0, SIG_VOID = 1, SIG_INT = 2, SIG_INT_REF = 3, SIG_PAYLOAD = 4 };
/* life of the by-value class argument (specification type Payload of lower/drivers/router.cpp) */
enum { PL_RAW = 0, PL_LIVE = 1, PL_MOVED = 2 };
struct Payload { int val; int state; };
struct SubjCore { int sig; _Bool has_subs; _Bool is_w; };
struct Subj0 { struct SubjCore c; };
struct SubjI { struct SubjCore c; };
struct SubjR { struct SubjCore c; };
struct SubjP { struct SubjCore c; };
struct SPtr { struct Subj0 *p; };                            /* std::unique_ptr<Subject<>> */
struct OPtr0 { void *p; }; struct OPtrI { void *p; };        /* std::unique_ptr<Observer<...>> */
struct OAuto0 { struct OPtr0 m_ptr; }; struct OAutoI { struct OPtrI m_ptr; };
struct Subn0 { unsigned m_id; struct Subj0 *m_subject; void *m_observer; };
struct SubnI { unsigned m_id; struct SubjI *m_subject; void *m_observer; };
/* std::map<std::string, Node> as parallel arrays (struct of arrays: an array of 200-byte entries, and pointers to
 * members inside its elements, exhaust CBMC's array theory).  keys[i] is the i-th key in map order, kids[i] the node
 * stored under it; psum/pmax/pany have len+1 elements: the folds of CNT / DEPTH / EX over the children before index i. */
struct CMap {
  size_t len; size_t *keys; struct Node *kids; size_t *psum; size_t *pmax; _Bool *pany;
  /* ---- ghost: facts about the node that owns this map, for the routing key g_key ---- */
  int g_lvl;          /* depth of the node = index of the key level it is compared with */
  size_t g_cnt;       /* CNT: number of stored keys in this subtree that the key matches and that hold a subject */
  _Bool g_ex;         /* EX: some stored key (prefix) in this subtree is matched by the key */
  size_t g_depth;     /* DEPTH: 1 + the longest chain of children below this node */
  _Bool g_isw, g_win; /* this node is the watched node W / W lies in this subtree */
  size_t g_wchild;    /* index of the child whose subtree holds W (when g_win && !g_isw) */
  _Bool g_whit;       /* WHIT: the key matches the path from this node down to W level by level, W is at the key's last
                         level and holds a subject */
  size_t g_fkey, g_fidx;   /* for the string g_fkey: g_fidx is the index of the child with that name, or len */
  /* ---- ghost for shrink (C13): liveness of the subtree ---- */
  _Bool g_hsubs;      /* the subject of this node (if any) has subscriptions */
  _Bool g_clive;      /* some child subtree is live */
  _Bool g_live;       /* LIVE: this subtree holds a subject with subscriptions = (subject && g_hsubs) || g_clive */
  size_t g_lchild;    /* witness: index of a live child when g_clive */
  _Bool g_full;       /* FULL: the pattern under consideration is a wildcard at every level down to the bottom of this subtree */
};
/* what dereferencing a map iterator yields: std::pair<const std::string, Node>, the node behind a pointer into kids
 * (the lowering maps pair.second to *pair.kid, @field_map in contracts/router.spec) */
struct CEnt { struct Str first; struct Node *kid; };
struct CIt { struct CMap *m; size_t pos; struct CEnt cur; }; /* map iterator (cur: the entry view handed out by operator*) */
struct CIns { struct CIt first; _Bool second; };             /* result of insert */
#ifndef RCAP_MAX
#define RCAP_MAX ((size_t)1 << 20)
#endif
size_t g_rcap;               /* capacity of the entry arrays */
struct RKey *g_key;          /* the routing key of the operation being verified */
int g_sig;                   /* the signature the subjects under the matched keys were created with (caller's obligation) */
size_t g_total;              /* number of Subject::notify calls made */
size_t g_w_notified;         /* ... of them on W's subject */
int g_w_arg;                 /* the argument W's subject received */
size_t g_ci;                 /* an arbitrary child index (ghost index instead of a quantifier) */
_Bool g_wlive;               /* W's subject has subscriptions (W is live) */
/* shrink is proved in four cases, one tracked child each (a query that tracks all four exhausts the memory):
 * g_case 0: g_tx is an arbitrary child; 1: the child leading to W; 2: the liveness witness; 3: g_tx is a PROPHECY of the
 * old index of the first child that std::erase_if keeps (when it keeps any) */
enum { CASE_ANY = 0, CASE_W = 1, CASE_L = 2, CASE_FIRST = 3 };
int g_case; size_t g_tx;
size_t g_tx_new; _Bool g_tx_kept, g_erase_ran;     /* where std::erase_if put the tracked entry (kept == 0: erased) */
/* pre-state values bound in requires clauses (an __CPROVER_old of an indexed element is evaluated eagerly) */
size_t g_key0; void *g_subj0; size_t g_len0; _Bool g_live0, g_match0;
/* MAP_TRACKED (harnesses of functions that modify child nodes, specs/rt_models.h): the tracked child and the scratch
 * object that stands for any other child */
struct Node *g_trk, *g_scr;
/* lookupNode / subscribe (specs/rt_models.h) */
size_t g_norx_from;         /* every key level with index >= g_norx_from is a string (subscribe keys contain no regex) */
_Bool g_inserted; size_t g_sub_calls, g_subj_created; struct SubjCore *g_sub_on;
_Bool g_thrown;
static void X_throw(const char *what) { g_thrown = 1; }
static void *X_operator_new(size_t n) { void *p = malloc(n); __CPROVER_assume(p != 0); return p; }
#endif
