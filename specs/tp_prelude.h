/* Prelude for the lowered ThreadPool translation unit (assumed side): types of std:: members. */
#ifndef VERIF_TP_PRELUDE_H
#define VERIF_TP_PRELUDE_H
#include <stddef.h>
#include <stdint.h>
#include <stdlib.h>
#include "atomic_bool.h"
_Bool nondet_bool(void);
struct Thread; struct Runnable;
/* std::list<T*>: array-backed sequence of symbolic capacity; iterators are positions */
struct ThreadList { struct Thread **items; size_t len; };
struct TaskList { struct Runnable **items; size_t head; size_t len; };
struct ThreadIt { struct ThreadList *l; size_t idx; };
struct TaskIt { struct TaskList *l; size_t idx; };
struct Mutex { int id; };
struct CondVar { int d; };
struct ULock { struct Mutex *m; _Bool owns; };
struct SLock { struct Mutex *m; };
struct StdThread { int id; };
/* ---- ownership discipline (DESIGN.md 4.4) ---- */
enum { F_QUEUE, F_POOL, F_RUNNING, F_EXPIRY, F_MAXTHREADS, F_LASTACTIVE };
enum { ACC_R, ACC_W };
enum { ROLE_OWNER, ROLE_WORKER };
int g_role;                       /* role of the thread executing the function under check */
_Bool g_held_queue, g_held_pool;  /* ghost lock state of the executing thread */
struct TP *g_tp;                  /* the pool whose mutexes the ghost lock state refers to */
struct PThread *g_my_pthread;     /* the PooledThread a worker belongs to */
_Bool g_workers_exist;            /* owner side: worker threads have been started and may run concurrently */
size_t g_lcap;
/* the stop flag, whatever its declared type (bool or std::atomic<bool>) */
#define TP_FLAG(p) (*(_Bool *)&(p)->m_isRunning)
size_t g_notifies, g_pred_evals;
struct Runnable *g_wtask; size_t g_wtask_runs, g_wtask_deletes;
struct Thread *g_wthread; size_t g_wthread_joins, g_wthread_deletes, g_starts;
struct Thread *g_last_joined;
/* C07 task ownership: the task a worker has taken out of the queue (exclusive from that moment on) */
struct Runnable *g_taken; size_t g_taken_runs, g_taken_deletes; size_t g_last_read_idx; _Bool g_read_valid;
size_t g_wi, g_wq;     /* watched positions in the pool list / the task queue */
#ifndef LCAP_MAX
#define LCAP_MAX ((size_t)1 << 20)
#endif
#endif
