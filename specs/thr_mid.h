static void run_stored(void);
struct closure_Thread__start_T_fn_ptr_int_ref_1 g_stored_fp;
struct closure_Thread__start_T_BigCallable_int_ref_1 g_stored_big;
struct closure_Thread__start_1 g_stored_runnable;
struct Thread *g_thread;
static void StdThread__ctor__closure_Thread__start_T_fn_ptr_int_ref_1_rref(struct StdThread *t, struct closure_Thread__start_T_fn_ptr_int_ref_1 *c) {
  g_stored_fp = *c; g_kind = K_FP; g_ran = 0; t->id = ++g_next_thread_id; if (g_early) run_stored(); }
static void StdThread__ctor__closure_Thread__start_T_BigCallable_int_ref_1_rref(struct StdThread *t, struct closure_Thread__start_T_BigCallable_int_ref_1 *c) {
  g_stored_big = *c; g_kind = K_BIG; g_ran = 0; t->id = ++g_next_thread_id; if (g_early) run_stored(); }
static void StdThread__ctor__closure_Thread__start_1_rref(struct StdThread *t, struct closure_Thread__start_1 *c) {
  g_stored_runnable = *c; g_kind = K_RUNNABLE; g_ran = 0; t->id = ++g_next_thread_id; if (g_early) run_stored(); }
static struct StdThread *StdThread__assign_move(struct StdThread *d, struct StdThread *s) { d->id = s->id; s->id = 0; return d; }
static void StdThread__dtor(struct StdThread *t) { }
static _Bool StdThread__joinable(struct StdThread *t) { return t->id != 0; }
static void StdThread__join(struct StdThread *t) {
  __CPROVER_assert(t->id != 0, "join on a started thread");
  if (!g_ran) run_stored();          /* join blocks until the thread function has returned */
  g_joined_id = t->id; t->id = 0;
}
