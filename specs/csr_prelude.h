/* Prelude for the lowered ConcurrentSubjectRouter translation unit (assumed side). */
#ifndef VERIF_CSR_PRELUDE_H
#define VERIF_CSR_PRELUDE_H
#include <stddef.h>
#include <stdint.h>
#include <stdlib.h>
_Bool nondet_bool(void);
struct Res { int opaque; };                 /* rwp::Resource: its locking behaviour is the subject of C01 */
struct Router { int opaque; };              /* SubjectRouter: sequential; each member requires a kind of access */
struct RKey { int opaque; };
struct USub { int opaque; };
struct CSub { struct USub __base_USubscription; };
struct tulz_Subscription { int opaque; };
struct tulz_Subscription_int { int opaque; };
struct tulz_USubscription_DefaultInvoker { int opaque; };
struct tulz_USubscription_DefaultInvoker_int { int opaque; };
enum { A_NONE, A_SHARED, A_EXCL };
int g_access; struct Res *g_access_on;      /* access to a Resource held by the executing thread (granted by lockRead/lockWrite) */
struct Res *g_res; struct Router *g_router; /* the router under check and its resource */
size_t g_inner_calls, g_lock_calls, g_unlock_calls, g_sub_ctor_calls;
#endif
