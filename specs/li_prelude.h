/* Prelude for the lowered LocaleInfo translation unit (assumed side): std::list<const char*> as an array-backed
 * sequence, the C string functions as contracts-by-model over the one input string, stdio ignored. */
#ifndef VERIF_LI_PRELUDE_H
#define VERIF_LI_PRELUDE_H
#include <stddef.h>
#include <stdint.h>
#include <string.h>
#include <stdio.h>
#ifndef STR_MAX
#define STR_MAX ((size_t)1 << 30)
#endif
#define LIST_CAP 240
struct StrList { char *items[LIST_CAP]; size_t len; };
/* ---- ghost facts about the input string, bound in the contract of get() ---- */
size_t g_len;              /* strlen(locale) */
size_t g_i;                /* arbitrary index */
_Bool g_has_dot, g_has_us; size_t g_dot, g_us;     /* first '.', first '_' */
size_t g_sobj;             /* object id of the input string */
size_t g_b;                /* watched byte index for memcpy */
size_t g_names_from_table, g_names_literal;
size_t g_langobj;          /* object id of the language table */
#define OBJ(p) __CPROVER_POINTER_OBJECT(p)
/* ---- agreement with the tables (the tables themselves stay abstract) ----
 * Strings are compared through their IDENTITY.  The pointer fields of the abstract tables are arbitrary values, so the
 * pointer value itself serves as the identity of a table string (equal text = equal value; every assignment of
 * identities to the table slots, i.e. every table contents up to equality of strings, is covered); g_lang_id / g_ctry_id are the identities of the
 * language and the country part of the input; g_buf_id is the identity of what the 64-byte buffer holds, maintained by
 * the memcpy model (the buffer holds exactly the copied text iff the byte after it is 0 when the copy is made).
 * strcmp(a, buffer) == 0 iff sid(a) == g_buf_id. */
#define SID(p) ((const char *)(p))
const char *g_lang_id, *g_ctry_id, *g_buf_id;   /* identities are pointer values, only ever compared for equality */
const char *nondet_cptr(void);
size_t g_w, g_c;           /* a watched language-table index, a watched country-table index */
_Bool g_w_seen; size_t g_w_pos;   /* the name of entry g_w was put into the result list at this position */
size_t g_last_idx;         /* the language-table entry that was listed last */
_Bool g_last_match;        /* ... and its code or its name was the language part when it was listed */
_Bool g_w_codem, g_w_namem, g_c_match;   /* CODEM(g_w), NAMEM(g_w), CMATCH(g_c): bound in the contract (no calls in loop invariants) */
#define PARTEND (g_has_dot ? g_dot : g_len)
static size_t verif_strlen(const char *s) {
  __CPROVER_assert(OBJ(s) == g_sobj && __CPROVER_POINTER_OFFSET(s) == 0, "strlen model covers the input string");
  return g_len;
}
static char *verif_strstr(const char *h, const char *n) {
  __CPROVER_assert(OBJ(h) == g_sobj && __CPROVER_POINTER_OFFSET(h) == 0, "strstr model covers the input string");
  __CPROVER_assert(n[0] != 0 && n[1] == 0, "strstr model covers single-character needles");
  if (n[0] == '.') return g_has_dot ? (char *)h + g_dot : (char *)0;
  if (n[0] == '_') return g_has_us ? (char *)h + g_us : (char *)0;
  __CPROVER_assert(0, "strstr model covers '.' and '_'");
  return 0;
}
/* memcpy: real precondition (both ranges inside their objects, no negative/huge length); destination bytes become
 * nondeterministic except the watched byte */
size_t nondet_sizet(void);
static void *verif_memcpy(void *dst, const void *src, size_t n) {
  __CPROVER_assert(n <= (size_t)1 << 62, "C19 memcpy length is not a negative number converted to size_t");
  if (n > 0) {
    __CPROVER_assert(__CPROVER_w_ok(dst, n), "C19 memcpy stays inside the destination buffer");
    __CPROVER_assert(__CPROVER_r_ok(src, n), "C19 memcpy stays inside the source string");
  }
  /* what the buffer holds afterwards: exactly the copied text iff the byte after it is 0 (the buffer is all zero from
   * its initialiser / from memset when the real code makes its two copies) */
  {
    _Bool exact = n < 64 && __CPROVER_r_ok(dst, n + 1) && ((char *)dst)[n] == 0;
    size_t off = __CPROVER_POINTER_OFFSET(src); const char *id = nondet_cptr();
    if (OBJ(src) == g_sobj && g_has_us && off == 0 && n == g_us) id = g_lang_id;
    if (OBJ(src) == g_sobj && g_has_us && off == g_us + 1 && PARTEND > g_us && n == PARTEND - g_us - 1) id = g_ctry_id;
    g_buf_id = exact ? id : nondet_cptr();
  }
  if (n > 0) {
    __CPROVER_havoc_slice(dst, n);
    if (g_b < n) ((char *)dst)[g_b] = ((const char *)src)[g_b];
  }
  return dst;
}
/* strcmp of a table string (a) with the 64-byte buffer (b).  Preconditions: a is a valid string (a table literal),
 * b is NUL-terminated inside its 64 bytes.  The result is 0 exactly when the two strings have the same identity. */
static int verif_strcmp(const char *a, const char *b) {
  __CPROVER_assert(__CPROVER_r_ok(b, 64) && b[63] == 0, "C19 the buffer passed to strcmp is NUL-terminated");
  int r; if (SID(a) == g_buf_id) r = 0; else __CPROVER_assume(r != 0);
  return r;
}
/* strncmp: equal identities compare equal; otherwise a prefix may still match */
static int verif_strncmp(const char *a, const char *b, size_t n) {
  __CPROVER_assert(__CPROVER_r_ok(b, 64) && b[63] == 0, "C19 the buffer passed to strncmp is NUL-terminated");
  int r; if (SID(a) == g_buf_id) r = 0;
  return r;
}
#define verif_fprintf(...) ((void)0)
#define strlen(s) verif_strlen(s)
#define strstr(h, n) verif_strstr(h, n)
#define memcpy(d, s, n) verif_memcpy(d, s, n)
/* strncpy of a part of the input that contains no NUL within n characters copies exactly n characters, like memcpy */
#define strncpy(d, s, n) ((char *)verif_memcpy(d, s, n))
#define fprintf(...) verif_fprintf(__VA_ARGS__)
static void StrList__ctor_default(struct StrList *l) { l->len = 0; }
static void StrList__dtor(struct StrList *l) { }
static void StrList__ctor_move(struct StrList *l, struct StrList *o) { *l = *o; o->len = 0; }
static struct StrList *StrList__op_assign(struct StrList *l, struct StrList *o) { *l = *o; o->len = 0; return l; }
static char **StrList__emplace_back__char_ptr_const(struct StrList *l, char **v);   /* specs/li_mid.h: needs the entry type */
static char **StrList__emplace_back__char_arr(struct StrList *l, void *v) {
  __CPROVER_assert(l->len < LIST_CAP, "list model capacity");
  l->items[l->len] = (char *)v; g_names_literal++;
  return &l->items[l->len++];
}
#endif
