/* Prelude for the lowered LocaleInfo translation unit (assumed side): std::list<const char*> as an array-backed
 * sequence, the C string functions as contracts-by-model over the one input string, stdio ignored. */
#ifndef VERIF_LI_PRELUDE_H
#define VERIF_LI_PRELUDE_H
#include <stddef.h>
#include <stdint.h>
#include <string.h>
#include <stdio.h>
#ifndef STR_MAX
#define STR_MAX ((size_t)1 << 30)
#endif
#define LIST_CAP 240
struct StrList { char *items[LIST_CAP]; size_t len; };
/* ---- ghost facts about the input string, bound in the contract of get() ---- */
size_t g_len;              /* strlen(locale) */
size_t g_i;                /* arbitrary index */
_Bool g_has_dot, g_has_us; size_t g_dot, g_us;     /* first '.', first '_' */
size_t g_sobj;             /* object id of the input string */
size_t g_b;                /* watched byte index for memcpy */
size_t g_names_from_table, g_names_literal;
size_t g_langobj;          /* object id of the language table */
#define OBJ(p) __CPROVER_POINTER_OBJECT(p)
static size_t verif_strlen(const char *s) {
  __CPROVER_assert(OBJ(s) == g_sobj && __CPROVER_POINTER_OFFSET(s) == 0, "strlen model covers the input string");
  return g_len;
}
static char *verif_strstr(const char *h, const char *n) {
  __CPROVER_assert(OBJ(h) == g_sobj && __CPROVER_POINTER_OFFSET(h) == 0, "strstr model covers the input string");
  __CPROVER_assert(n[0] != 0 && n[1] == 0, "strstr model covers single-character needles");
  if (n[0] == '.') return g_has_dot ? (char *)h + g_dot : (char *)0;
  if (n[0] == '_') return g_has_us ? (char *)h + g_us : (char *)0;
  __CPROVER_assert(0, "strstr model covers '.' and '_'");
  return 0;
}
/* memcpy: real precondition (both ranges inside their objects, no negative/huge length); destination bytes become
 * nondeterministic except the watched byte */
static void *verif_memcpy(void *dst, const void *src, size_t n) {
  __CPROVER_assert(n <= (size_t)1 << 62, "C19 memcpy length is not a negative number converted to size_t");
  if (n > 0) {
    __CPROVER_assert(__CPROVER_w_ok(dst, n), "C19 memcpy stays inside the destination buffer");
    __CPROVER_assert(__CPROVER_r_ok(src, n), "C19 memcpy stays inside the source string");
    __CPROVER_havoc_slice(dst, n);
    if (g_b < n) ((char *)dst)[g_b] = ((const char *)src)[g_b];
  }
  return dst;
}
/* strcmp of a table string (a) with the 64-byte buffer (b).  Preconditions: a is a valid string (a table literal),
 * b is NUL-terminated inside its 64 bytes.  The RESULT is left nondeterministic: the contract of get() below is
 * about safety, totality and the shape of the answer, which must hold whatever the comparisons say; agreement of the
 * chosen entry with the text is not decided by this check (stated in DESIGN.md). */
static int verif_strcmp(const char *a, const char *b) {
  __CPROVER_assert(__CPROVER_r_ok(b, 64) && b[63] == 0, "C19 the buffer passed to strcmp is NUL-terminated");
  int r; return r;
}
#define verif_fprintf(...) ((void)0)
#define strlen(s) verif_strlen(s)
#define strstr(h, n) verif_strstr(h, n)
#define memcpy(d, s, n) verif_memcpy(d, s, n)
#define fprintf(...) verif_fprintf(__VA_ARGS__)
static void StrList__ctor_default(struct StrList *l) { l->len = 0; }
static void StrList__dtor(struct StrList *l) { }
static void StrList__ctor_move(struct StrList *l, struct StrList *o) { *l = *o; o->len = 0; }
static struct StrList *StrList__op_assign(struct StrList *l, struct StrList *o) { *l = *o; o->len = 0; return l; }
static char **StrList__emplace_back__char_ptr_const(struct StrList *l, char **v) {
  __CPROVER_assert(l->len < LIST_CAP, "list model capacity");
  __CPROVER_assert(OBJ(v) == g_langobj, "C19 every language name returned refers to an entry of the language table");
  l->items[l->len] = *v; g_names_from_table++;
  return &l->items[l->len++];
}
static char **StrList__emplace_back__char_arr(struct StrList *l, void *v) {
  __CPROVER_assert(l->len < LIST_CAP, "list model capacity");
  l->items[l->len] = (char *)v; g_names_literal++;
  return &l->items[l->len++];
}
#endif
