/* Prelude for the lowered Array<Elem> translation unit (assumed side): same element / allocation models as RingBuffer */
#ifndef VERIF_ARR_PRELUDE_H
#define VERIF_ARR_PRELUDE_H
#include "rb_prelude.h"
#endif
