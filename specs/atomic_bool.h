/* std::atomic<bool> (assumed side): a cell with sequentially consistent load/store */
#ifndef VERIF_ATOMIC_BOOL_H
#define VERIF_ATOMIC_BOOL_H
struct std_atomic_bool { _Bool v; };
static _Bool std_atomic_bool__op_bool(struct std_atomic_bool *a) { return a->v; }
static _Bool std_atomic_bool__op_assign(struct std_atomic_bool *a, _Bool x) { a->v = x; return x; }
#define FLAG(t) ((t)->m_isFinished.v)
#endif
