/* after the lowered record definitions: models that need the iterator structs */
static _Bool X_equal__CItT_CItT_CItT_CItT(struct CItT f1, struct CItT l1, struct CItT f2, struct CItT l2);
static _Bool X_equal__CItF_CItF_CItF_CItF(struct CItF f1, struct CItF l1, struct CItF f2, struct CItF l2);
