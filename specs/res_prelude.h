/* Prelude for the lowered rwp::Resource translation unit: types of the std:: objects it embeds (assumed side). */
#ifndef VERIF_RES_PRELUDE_H
#define VERIF_RES_PRELUDE_H
#include <stddef.h>
#include <stdint.h>
#include <stdlib.h>
struct ResOp;
/* std::deque<Operation>: array-backed sequence of symbolic capacity (model with bodies, specs/res_models.h) */
struct Deq { struct ResOp *items; size_t head; size_t len; };
struct Mutex { int d; };
struct CondVar { int d; };
struct ULock { struct Mutex *m; _Bool owns; };
/* recording ghost for the delegation proofs of the public entry points and guards */
int g_called; struct Res *g_called_on; int g_called_type; _Bool g_called_lock;
#endif
