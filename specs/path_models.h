/* Models of std::string and of chdir/getcwd for the Path proofs (assumed side; see specs/path_prelude.h). */
static char str_at(const struct Str *s, size_t i) {
  __CPROVER_assert(i < s->len, "string character access inside the string");
  char c = s->p[s->off + i];
  if (s->sf_lo <= s->off + i && s->off + i < s->sf_hi) __CPROVER_assume(!ISSEP(c));    /* the hypothesis, at the index read */
  return c;
}
static void Str__ctor_default(struct Str *s) { s->p = 0; s->off = 0; s->len = 0; s->id = 0; s->sf_lo = 0; s->sf_hi = 0; }
static void Str__ctor_copy(struct Str *d, struct Str *s) { *d = *s; }
static struct Str *Str__assign_copy(struct Str *d, struct Str *s) { *d = *s; return d; }
static struct Str *Str__op_assign(struct Str *d, struct Str *s) { *d = *s; return d; }
static void Str__dtor(struct Str *s) { }
static _Bool Str__empty(struct Str *s) { return s->len == 0; }
static size_t Str__size(struct Str *s) { return s->len; }
static char *Str__back(struct Str *s) {
  __CPROVER_assert(s->len > 0, "back() is called on a non-empty string (undefined otherwise)");
  (void)str_at(s, s->len - 1);
  return &s->p[s->off + s->len - 1];
}
/* x is one of the instantiation points */
#define INST5(F) F(g_k) F(g_j) F(g_lm1) F(g_lm2) F(g_lm3)
/* find(c): the first index holding c, or npos */
static size_t Str__find(struct Str *s, char c) {
  size_t r = nondet_size();
  __CPROVER_assume(r == npos || (r < s->len && str_at(s, r) == c));
#define NOTBEFORE(x) if ((x) < s->len && (r == npos || (x) < r)) __CPROVER_assume(str_at(s, (x)) != c);
  INST5(NOTBEFORE) NOTBEFORE((size_t)0)
#undef NOTBEFORE
  return r;
}
/* find_last_of("/\\", pos): the last index <= pos holding a separator, or npos */
static size_t Str__find_last_of_2(struct Str *s, const char *set, size_t pos) {
  __CPROVER_assert(set[0] == '/' && set[1] == '\\' && set[2] == 0, "MODEL-LIMIT find_last_of is modelled for the separator set only");
  size_t hi = pos >= s->len ? s->len : pos + 1;
  size_t r = nondet_size();
  __CPROVER_assume(r == npos || (r < hi && ISSEP(str_at(s, r))));
#define NOTAFTER(x) if ((x) < hi && (r == npos || (x) > r)) __CPROVER_assume(!ISSEP(str_at(s, (x))));
  INST5(NOTAFTER) NOTAFTER(hi - 1) NOTAFTER(hi - 2)
#undef NOTAFTER
  return r;
}
static size_t Str__find_last_of_1(struct Str *s, const char *set) { return Str__find_last_of_2(s, set, npos); }
/* find_last_not_of("/\\", pos): the last index <= pos holding a character that is not a separator, or npos */
static size_t Str__find_last_not_of_2(struct Str *s, const char *set, size_t pos) {
  __CPROVER_assert(set[0] == '/' && set[1] == '\\' && set[2] == 0, "MODEL-LIMIT find_last_not_of is modelled for the separator set only");
  size_t hi = pos >= s->len ? s->len : pos + 1;
  size_t r = nondet_size();
  __CPROVER_assume(r == npos || (r < hi && !ISSEP(str_at(s, r))));
#define ALLSEP(x) if ((x) < hi && (r == npos || (x) > r)) __CPROVER_assume(ISSEP(str_at(s, (x))));
  INST5(ALLSEP) ALLSEP(hi - 1) ALLSEP(hi - 2)
#undef ALLSEP
  return r;
}
static size_t Str__find_last_not_of_1(struct Str *s, const char *set) { return Str__find_last_not_of_2(s, set, npos); }
/* erase(pos): everything from pos on */
static struct Str *Str__erase_1(struct Str *s, size_t pos) { return Str__erase_2(s, pos, npos); }
/* erase(pos, n): removes min(n, size - pos) characters from pos; throws std::out_of_range when pos > size */
static struct Str *Str__erase_2(struct Str *s, size_t pos, size_t n) {
  __CPROVER_assert(pos <= s->len, "erase() position is inside the string (std::out_of_range otherwise)");
  size_t cnt = n < s->len - pos ? n : s->len - pos;
  if (cnt == 0) return s;
  s->id = nondet_size();
  if (pos + cnt == s->len) { s->len = pos; if (pos == 0) s->id = 0; return s; }
  if (pos == 0) { s->off += cnt; s->len -= cnt; return s; }
  __CPROVER_assert(0, "MODEL-LIMIT erase in the middle of a string is not modelled");
  return s;
}
static const char *Str__c_str(struct Str *s) { return (const char *)s; }
static void str_fresh(struct Str *r, size_t len) {
  __CPROVER_assume(len <= SLEN_MAX);
  r->p = malloc(len + 1); __CPROVER_assume(r->p != 0);
  r->off = 0; r->len = len; r->id = nondet_size(); __CPROVER_assume(r->id != 0 || len == 0);
  r->sf_lo = 0; r->sf_hi = 0;
}
/* the separator-free region of an operand, in the coordinates of the result (operand placed at `at`) */
static void str_region(struct Str *r, struct Str *a, size_t at) {
  size_t lo = a->sf_lo > a->off ? a->sf_lo : a->off, hi = a->sf_hi < a->off + a->len ? a->sf_hi : a->off + a->len;
  if (lo < hi) { r->sf_lo = lo - a->off + at; r->sf_hi = hi - a->off + at; }
}
static void str_add_char(struct Str *a, char c, struct Str *r) {
  struct Str t; str_fresh(&t, a->len + 1);
  __CPROVER_assume(t.p[a->len] == c);
#define SAME(x) if ((x) < a->len) __CPROVER_assume(t.p[(x)] == str_at(a, (x)));
  INST5(SAME) SAME((size_t)0) SAME(a->len - 1)
#undef SAME
  str_region(&t, a, 0);
  *r = t;
}
static void str_add_str(struct Str *a, struct Str *b, struct Str *r) {
  struct Str t; str_fresh(&t, a->len + b->len);
  if (b->len == 0) t.id = a->id; else if (a->len == 0) t.id = b->id;
#define SAME(x) if ((x) < a->len) __CPROVER_assume(t.p[(x)] == str_at(a, (x))); \
                else if ((x) < t.len) __CPROVER_assume(t.p[(x)] == str_at(b, (x) - a->len));
  INST5(SAME) SAME((size_t)0) SAME(a->len - 1) SAME(a->len) SAME(t.len - 1)
#undef SAME
  str_region(&t, a, 0);
  str_region(&t, b, a->len);          /* the region of the right operand wins (the suffix) */
  *r = t;
}
/* ---- the process working directory ---- */
static int X_chdir__char_ptr(const char *c) {
  const struct Str *s = (const struct Str *)c;
  g_chdir_calls++;
  /* may fail (directory missing, no permission); going back to the directory the process was in succeeds (assumption) */
  if (s->id == g_prev_cwd_id || nondet_bool()) { g_cwd_id = s->id; g_cwd_len = s->len; return 0; }
  return -1;
}
static char *X_getcwd__char_ptr_size_t(char *buf, size_t n) {
  g_getcwd_calls++;
  __CPROVER_assert(g_cwd_len < n, "ASSUMED the path of the working directory fits the buffer given to getcwd");
  g_cwdbuf = buf; g_cwdbuf_id = g_cwd_id; g_cwdbuf_len = g_cwd_len;
  return buf;
}
static void Str__ctor__char_ptr_std_allocator_char_ref(struct Str *d, const char *c) {
  if (c == g_cwdbuf) { str_fresh(d, g_cwdbuf_len); d->id = g_cwdbuf_id; }
  else { size_t l = nondet_size(); str_fresh(d, l); }
}

/* ---- directory streams (assumed contract) ---- */
static _Bool Path__exists(struct Path *p) { return g_exists; }
static struct DIR *X_opendir__char_ptr(const char *c) {
  if (!g_exists || !g_isdir) return 0;
  g_dir_open = 1; g_dir_pos = 0; return &g_dir;
}
static struct dirent *X_readdir__DIR_ptr(struct DIR *d) {
  __CPROVER_assert(d == &g_dir && g_dir_open, "C18 readdir is given an open directory stream");
  if (g_dir_pos < g_nent) { struct dirent *e = &g_ents[g_dir_pos]; g_dir_pos++; __CPROVER_assume(e->d_name[255] == 0); return e; }
  return 0;
}
static int X_closedir__DIR_ptr(struct DIR *d) {
  __CPROVER_assert(d == &g_dir && g_dir_open, "C18 closedir is given an open directory stream");
  g_dir_open = 0; g_closedir_calls++; return 0;
}
/* strcmp against a literal of at most two characters ("." and ".."): the comparison ends within three characters */
static int X_strcmp__char_ptr_char_ptr(const char *a, const char *b) {
  __CPROVER_assert(b[0] == 0 || b[1] == 0 || b[2] == 0, "MODEL-LIMIT strcmp is modelled against literals of at most two characters");
  if (a[0] != b[0]) return (unsigned char)a[0] < (unsigned char)b[0] ? -1 : 1;
  if (a[0] == 0) return 0;
  if (a[1] != b[1]) return (unsigned char)a[1] < (unsigned char)b[1] ? -1 : 1;
  if (a[1] == 0) return 0;
  if (a[2] != b[2]) return (unsigned char)a[2] < (unsigned char)b[2] ? -1 : 1;
  return 0;
}
static void PathList__ctor_default(struct PathList *l) { l->len = 0; }
static void PathList__ctor_move(struct PathList *l, struct PathList *o) { l->len = o->len; o->len = 0; }
static void PathList__dtor(struct PathList *l) { }
static struct Path g_emplaced;
static struct Path *PathList__emplace_front(struct PathList *l, char **name) {
  if (*name == &g_ents[g_e].d_name[0]) g_e_listed++;
  l->len++;
  return &g_emplaced;
}
