/* Prelude for the lowered Path.cpp / DirectoryVisitor.cpp (assumed side; DESIGN.md 5 C18).
 *
 * std::string is a VIEW (buffer, offset, length) onto an immutable character buffer of symbolic size: copies share the
 * buffer, erase at either end moves the view, concatenation makes a new buffer.  Facts that hold for every index of a
 * string (the result of a concatenation equals its operands, no separator follows the one find_last_of returns, a name
 * contains no separator) are stated at ghost indices (an arbitrary index g_k plus the landmark indices the harness
 * constrains) instead of quantifiers; sf_lo/sf_hi carry the one universally quantified HYPOTHESIS of the property
 * ("a separator-free name") through copies and concatenations and hand it out at every character read.
 * `id` is the identity of the content (equal ids = equal strings), which is all DirectoryVisitor needs. */
#ifndef VERIF_PATH_PRELUDE_H
#define VERIF_PATH_PRELUDE_H
#include <stddef.h>
#include <stdint.h>
#include <stdlib.h>
_Bool nondet_bool(void);
size_t nondet_size(void);
#define npos ((size_t)-1)
#ifndef SLEN_MAX
#define SLEN_MAX ((size_t)1 << 30)
#endif
struct Str { char *p; size_t off, len; size_t id; size_t sf_lo, sf_hi; };
struct std_exception { int unused; };
/* ghost instantiation points (indices into a string), unconstrained inputs of a harness unless it constrains them */
size_t g_k, g_j, g_lm1, g_lm2, g_lm3;
/* the process working directory: identity and length of its path; the buffer getcwd() last filled */
size_t g_cwd_id, g_cwd_len, g_prev_cwd_id; const char *g_cwdbuf; size_t g_cwdbuf_id, g_cwdbuf_len;
size_t g_chdir_calls, g_getcwd_calls;
_Bool g_thrown;
static void X_throw(const char *what) { g_thrown = 1; }
#endif
