/* Prelude for the lowered Path.cpp / DirectoryVisitor.cpp (assumed side; DESIGN.md 5 C18).
 *
 * std::string is a VIEW (buffer, offset, length) onto an immutable character buffer of symbolic size: copies share the
 * buffer, erase at either end moves the view, concatenation makes a new buffer.  Facts that hold for every index of a
 * string (the result of a concatenation equals its operands, no separator follows the one find_last_of returns, a name
 * contains no separator) are stated at ghost indices (an arbitrary index g_k plus the landmark indices the harness
 * constrains) instead of quantifiers; sf_lo/sf_hi carry the one universally quantified HYPOTHESIS of the property
 * ("a separator-free name") through copies and concatenations and hand it out at every character read.
 * `id` is the identity of the content (equal ids = equal strings), which is all DirectoryVisitor needs. */
#ifndef VERIF_PATH_PRELUDE_H
#define VERIF_PATH_PRELUDE_H
#include <stddef.h>
#include <stdint.h>
#include <stdlib.h>
_Bool nondet_bool(void);
size_t nondet_size(void);
#define npos ((size_t)-1)
#ifndef SLEN_MAX
#define SLEN_MAX ((size_t)1 << 30)
#endif
struct Str { char *p; size_t off, len; size_t id; size_t sf_lo, sf_hi; };
struct std_exception { int unused; };
/* ghost instantiation points (indices into a string), unconstrained inputs of a harness unless it constrains them */
size_t g_k, g_j, g_lm1, g_lm2, g_lm3;
/* the process working directory: identity and length of its path; the buffer getcwd() last filled */
size_t g_cwd_id, g_cwd_len, g_prev_cwd_id; const char *g_cwdbuf; size_t g_cwdbuf_id, g_cwdbuf_len;
size_t g_chdir_calls, g_getcwd_calls;
int g_thrown, g_throw_code;
static void X_throw(const char *what) { g_thrown = 2; }
static void X_throw_code(const char *what, int code) { g_thrown = 1; g_throw_code = code; }
/* ---- the ASSUMED directory-stream contract: a directory is a sequence of g_nent entries with arbitrary names ---- */
#ifndef DENT_MAX
#define DENT_MAX ((size_t)1 << 20)
#endif
struct dirent { char d_name[256]; };
struct DIR { int unused; };
struct PathList { size_t len; };                 /* std::forward_list<Path>: only its length is observed */
struct dirent *g_ents; size_t g_nent, g_dir_pos; _Bool g_dir_open; struct DIR g_dir;
_Bool g_exists, g_isdir;                         /* facts about the path */
size_t g_e, g_e_listed, g_closedir_calls;        /* a watched entry: how often it was put into the result */
#define DOTNAME(n) (((n)[0] == '.' && (n)[1] == 0) || ((n)[0] == '.' && (n)[1] == '.' && (n)[2] == 0))
#endif
