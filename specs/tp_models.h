/* Models for the ThreadPool proofs (assumed side; DESIGN.md 4.4, 5 C15/C08).
 *
 * Ownership discipline: every read/write of a declared shared field (instrumented by cxxlower as verif_access) is an
 * obligation over the ghost lock state of the executing thread and its role:
 *   m_queue          guarded by m_queueMutex (owner and workers)
 *   m_isRunning      written by the owner only; it is part of the workers' wait predicate, so every write needs
 *                    m_queueMutex; the owner may read its own writes without the mutex, a worker needs the mutex
 *   m_pool           owner only (workers never touch it); owner-side accesses are additionally made under m_poolMutex
 *                    by the code, which the discipline does not require
 *   m_expiryTimeout, m_maxThreadCount   immutable while workers exist (the setters are outside the intended use)
 *   PooledThread::m_lastActiveTime      written by the constructor before the thread starts, afterwards confined to
 *                    its worker; the owner must not touch it once the thread runs
 */
static int verif_access(int field, int kind, void *obj) {
  if (field == F_QUEUE) __CPROVER_assert(g_held_queue, "C15 m_queue is accessed only with m_queueMutex held");
  if (field == F_RUNNING) {
    if (kind == ACC_W) {
      __CPROVER_assert(g_role == ROLE_OWNER, "C15 m_isRunning is written by the owner thread only");
      __CPROVER_assert(g_held_queue || !g_workers_exist, "C15/C08 the stop flag (part of the workers' wait predicate) is written only with m_queueMutex held");
    } else {
      __CPROVER_assert(g_role == ROLE_OWNER || g_held_queue, "C15 a worker reads the stop flag only with m_queueMutex held");
    }
  }
  if (field == F_POOL) __CPROVER_assert(g_role == ROLE_OWNER, "C15 m_pool is touched by the owner thread only");
  if (field == F_EXPIRY || field == F_MAXTHREADS)
    __CPROVER_assert(kind == ACC_R || !g_workers_exist, "C15 pool limits are not modified while workers exist");
  if (field == F_LASTACTIVE)
    __CPROVER_assert(g_role == ROLE_WORKER && obj == (void *)g_my_pthread, "C15 m_lastActiveTime is confined to the worker it belongs to");
  return 0;
}
/* ---- mutexes: ghost lock state of the executing thread; lock of a held mutex / unlock of a free one are errors ---- */
static void Mutex__ctor_default(struct Mutex *m) { m->id = 0; }
static void CondVar__ctor_default(struct CondVar *c) { c->d = 0; }
static _Bool g_flag_written_since_notify;
static void mtx_lock(struct Mutex *m) {
  if (m == &g_tp->m_queueMutex) { __CPROVER_assert(!g_held_queue, "C15 m_queueMutex is not locked twice by one thread"); g_held_queue = 1; }
  else if (m == &g_tp->m_poolMutex) { __CPROVER_assert(!g_held_pool, "C15 m_poolMutex is not locked twice by one thread"); g_held_pool = 1; }
  else __CPROVER_assert(0, "lock of an unknown mutex");
}
static void mtx_unlock(struct Mutex *m) {
  if (m == &g_tp->m_queueMutex) { __CPROVER_assert(g_held_queue, "C15 m_queueMutex is unlocked only when held"); g_held_queue = 0; }
  else if (m == &g_tp->m_poolMutex) { __CPROVER_assert(g_held_pool, "C15 m_poolMutex is unlocked only when held"); g_held_pool = 0; }
  else __CPROVER_assert(0, "unlock of an unknown mutex");
}
static void ULock__ctor__Mutex_ref(struct ULock *l, struct Mutex *m) { l->m = m; l->owns = 1; mtx_lock(m); }
static void ULock__dtor(struct ULock *l) { if (l->owns) mtx_unlock(l->m); }
static void ULock__unlock(struct ULock *l) { __CPROVER_assert(l->owns, "unique_lock::unlock on a lock that owns its mutex (std::system_error otherwise)"); mtx_unlock(l->m); l->owns = 0; }
static void ULock__lock(struct ULock *l) { __CPROVER_assert(!l->owns, "unique_lock::lock on a lock that does not own its mutex (std::system_error otherwise)"); mtx_lock(l->m); l->owns = 1; }
static void SLock__ctor__Mutex_ref(struct SLock *l, struct Mutex *m) { l->m = m; mtx_lock(m); }
static void SLock__dtor(struct SLock *l) { mtx_unlock(l->m); }
static void CondVar__notify_all(struct CondVar *c) { g_notifies++; }
static void CondVar__notify_one(struct CondVar *c) { g_notifies++; }
/* wait(lock, pred): while (!pred()) { release; block; re-acquire }.  The predicate runs with the mutex held. */
static void CondVar__wait(struct CondVar *c, struct ULock *l, struct closure_PRun__run_1 pred) {
  __CPROVER_assert(l->owns && l->m == &g_tp->m_queueMutex && g_held_queue, "C15 wait is called with the queue mutex held");
  _Bool ok = closure_PRun__run_1__call(&pred); g_pred_evals++;
  if (!ok) {
    /* mutex released; other threads run; re-acquired; predicate evaluated again (under the mutex) and now true */
    struct TP *tp = g_tp; size_t n; __CPROVER_assume(n <= g_lcap - tp->m_queue.head); tp->m_queue.len = n; TP_FLAG(tp) = nondet_bool();
    ok = closure_PRun__run_1__call(&pred); g_pred_evals++;
    __CPROVER_assume(ok);
  }
}
/* ---- std::list models ---- */
static void ThreadList__ctor_default(struct ThreadList *l) { l->len = 0; }
static size_t ThreadList__size(struct ThreadList *l) { return l->len; }
static void ThreadList__begin(struct ThreadList *l, struct ThreadIt *r) { r->l = l; r->idx = 0; }
static void ThreadList__end(struct ThreadList *l, struct ThreadIt *r) { r->l = l; r->idx = l->len; }
static void ThreadList__clear(struct ThreadList *l) { l->len = 0; }
static struct Thread **ThreadList__emplace_back(struct ThreadList *l, struct PThread **v) { __CPROVER_assume(l->len < g_lcap); l->items[l->len] = (struct Thread *)*v; return &l->items[l->len++]; }
static void ThreadList__erase(struct ThreadList *l, struct ThreadIt pos_, struct ThreadIt *r) {
  struct ThreadIt *pos = &pos_;
  __CPROVER_assert(pos->idx < l->len, "list::erase of a valid position");
  /* the elements behind the erased one move up; only the element at the erased position is tracked precisely */
  if (pos->idx + 1 < l->len) { struct Thread *nx = l->items[pos->idx + 1]; l->items[pos->idx] = nx; }
  l->len--; r->l = l; r->idx = pos->idx;
}
/* representation invariant of both lists: entries are pairwise distinct objects (threads come from `new`, a task is
 * submitted once).  It is assumed at the instance (position read, watched position). */
static struct Thread **ThreadIt__op_star(struct ThreadIt *i) { __CPROVER_assert(i->idx < i->l->len, "list iterator dereferenced inside the list");
  __CPROVER_assume(i->l->items[i->idx] != 0 && (i->idx == g_wi || i->l->items[i->idx] != g_wthread)); return &i->l->items[i->idx]; }
static struct ThreadIt *ThreadIt__op_inc(struct ThreadIt *i) { i->idx++; return i; }
static struct ThreadIt *ThreadIt__assign_move(struct ThreadIt *a, struct ThreadIt *b) { __CPROVER_assert(a->l == b->l, "iterators of one list"); a->idx = b->idx; return a; }
static void ThreadIt__ctor__ThreadIt_ref(struct ThreadIt *a, struct ThreadIt *b) { *a = *b; }
static _Bool X_op_eq__ThreadIt_ref_ThreadIt_ref(struct ThreadIt *a, struct ThreadIt *b) { return a->idx == b->idx; }
static void TaskList__ctor_default(struct TaskList *l) { l->head = 0; l->len = 0; }
static _Bool TaskList__empty(struct TaskList *l) { return l->len == 0; }
static size_t TaskList__size(struct TaskList *l) { return l->len; }
static _Bool ThreadList__empty(struct ThreadList *l) { return l->len == 0; }
static void TaskList__begin(struct TaskList *l, struct TaskIt *r) { r->l = l; r->idx = 0; }
static void TaskList__end(struct TaskList *l, struct TaskIt *r) { r->l = l; r->idx = l->len; }
static void TaskList__clear(struct TaskList *l) { l->len = 0; }
static struct Runnable **TaskList__emplace_back(struct TaskList *l, struct Runnable **v) { __CPROVER_assume(l->head + l->len < g_lcap); l->items[l->head + l->len] = *v; return &l->items[l->head + l->len++]; }
static void TaskList__erase(struct TaskList *l, struct TaskIt pos_, struct TaskIt *r) {
  struct TaskIt *pos = &pos_;
  __CPROVER_assert(pos->idx == 0 && l->len > 0, "list::erase model covers the front position");
  __CPROVER_assert(g_held_queue, "C07 a task changes hands only with the queue mutex held");
  __CPROVER_assert(g_read_valid && g_last_read_idx == pos->idx, "C07 the worker removes exactly the entry it took the task from (the oldest one)");
  __CPROVER_assert(g_taken_runs == g_taken_deletes, "C07 the previous task was run and destroyed before the next one is taken");
  g_taken = l->items[l->head]; g_taken_runs = 0; g_taken_deletes = 0; g_read_valid = 0;
  l->head++; l->len--; r->l = l; r->idx = 0;
}
static struct Runnable **TaskIt__op_star(struct TaskIt *i) { __CPROVER_assert(i->idx < i->l->len, "list iterator dereferenced inside the list");
  __CPROVER_assume(i->l->items[i->l->head + i->idx] != 0 && (i->idx == g_wq || i->l->items[i->l->head + i->idx] != g_wtask));
  g_last_read_idx = i->idx; g_read_valid = 1; return &i->l->items[i->l->head + i->idx]; }
static struct TaskIt *TaskIt__op_inc(struct TaskIt *i) { i->idx++; return i; }
static struct Runnable **TaskList__front(struct TaskList *l) { struct TaskIt i; i.l = l; i.idx = 0; return TaskIt__op_star(&i); }
static void TaskList__pop_front(struct TaskList *l) {
  __CPROVER_assert(l->len > 0, "pop_front() of a non-empty list");
  __CPROVER_assert(g_held_queue, "C07 a task changes hands only with the queue mutex held");
  l->head++; l->len--; g_read_valid = 0;
}
static void TaskIt__ctor__TaskIt_ref(struct TaskIt *a, struct TaskIt *b) { *a = *b; }
static _Bool X_op_eq__TaskIt_ref_TaskIt_ref(struct TaskIt *a, struct TaskIt *b) { return a->idx == b->idx; }
/* ---- allocation, tasks, threads ---- */
static void *X_operator_new(size_t n) { void *p = malloc(n); __CPROVER_assume(p != 0); return p; }
/* list entries are abstract objects in these proofs (nondeterministic pointers): releasing one is a ghost event only */
static void X_operator_delete(void *p) { }
/* watched task: typestate QUEUED -> TAKEN -> RAN -> DELETED or QUEUED -> DELETED (C07/C08) */
static void Runnable__run__virtual(struct Runnable *r) {
  __CPROVER_assert(!g_held_queue && !g_held_pool, "C15/C08 a user task runs without pool locks held");
  if (g_role == ROLE_WORKER) {
    __CPROVER_assert(r == g_taken && g_taken_runs == 0 && g_taken_deletes == 0, "C07 a worker runs exactly the task it took out of the queue, once, before destroying it");
    g_taken_runs++;
  }
  if (r == g_wtask) g_wtask_runs++;
}
static void Runnable__delete(struct Runnable *r) {
  if (g_role == ROLE_WORKER) {
    __CPROVER_assert(r == g_taken && g_taken_runs == 1 && g_taken_deletes == 0, "C07 a worker destroys the task it ran, once, after the run returned");
    g_taken_deletes++;
  } else {
    __CPROVER_assert(g_held_queue, "C07 the owner destroys only tasks that are still queued (queue mutex held)");
  }
  if (r == g_wtask) g_wtask_deletes++;
}
void Thread__ctor_default(struct Thread *t) { t->m_thread.id = 0; FLAG(t) = 0; }

void Thread__dtor(struct Thread *t) { __CPROVER_assert(t == g_last_joined, "C08 a worker thread object is destroyed only after it was joined"); g_last_joined = 0; if (t == g_wthread) g_wthread_deletes++; }
void Thread__join(struct Thread *t) { __CPROVER_assert(!g_held_queue, "C08 the owner does not hold the queue mutex while it waits for a worker to exit"); g_last_joined = t; if (t == g_wthread) g_wthread_joins++; }
/* m_isFinished is written by the worker and read by the owner with no lock in between: the discipline demands an
 * atomic type for it (checked on the declared type, see THREAD_FINISHED_IS_ATOMIC in the harness) */
_Bool Thread__isFinished(struct Thread *t) { return nondet_bool(); }
_Bool Thread__isRunning(struct Thread *t) { return nondet_bool(); }
void Thread__start(struct Thread *t, struct Runnable *r) { g_starts++; g_workers_exist = 1; }
/* the clock: non-negative milliseconds far below overflow */
long tulz__time(void) { long t; __CPROVER_assume(t >= 0 && t < ((long)1 << 62)); return t; }
