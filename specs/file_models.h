/* The assumed stdio stream contract and the other dependencies of File.cpp (see specs/file_prelude.h). */
static struct FILE *X_fopen__char_ptr_restrict_char_ptr_restrict(const char *path, const char *mode) {
  if (g_thrown) return 0;                      /* an exception is in flight (the lowering returns instead of unwinding) */
  g_fopen_calls++; g_fopen_path = path;
  __CPROVER_assert(mode != 0 && (mode[0] == 'r' || mode[0] == 'w' || mode[0] == 'a') && (mode[1] == 0 || (mode[1] == 'b' && mode[2] == 0)),
                   "C17 fopen is given one of the mode strings r, rb, w, wb, a, ab");
  if (mode[0] == 'r' && !g_exists) return 0;
  struct FILE *f = malloc(sizeof(*f)); __CPROVER_assume(f != 0);
  f->open = 1; f->eof = 0; f->binary = mode[1] == 'b'; f->pos = 0;
  f->kind = mode[0] == 'r' ? K_READ : mode[0] == 'w' ? K_WRITE : K_APPEND;
  if (mode[0] == 'w') g_disk_len = 0;         /* truncated (or created empty) */
  if (mode[0] == 'a' && !g_exists) g_disk_len = 0;
  g_exists = 1;
  return f;
}
static int X_fclose__FILE_ptr(struct FILE *f) {
  __CPROVER_assert(f != 0 && f->open, "C17 fclose is given an open stream");
  f->open = 0; g_fclose_calls++; g_closed_stream = f; return 0;
}
static int X_fflush__FILE_ptr(struct FILE *f) { __CPROVER_assert(f != 0 && f->open, "C17 fflush is given an open stream"); return 0; }
static int X_fseek__FILE_ptr_long_int(struct FILE *f, long off, int whence) {
  __CPROVER_assert(f != 0 && f->open, "C17 fseek is given an open stream");
  __CPROVER_assert(whence == 0 || whence == 1 || whence == 2, "C17 fseek is given SEEK_SET, SEEK_CUR or SEEK_END");
  long base = whence == 0 ? 0 : whence == 1 ? (long)f->pos : (long)g_disk_len;
  if (off < 0 && -off > base) return -1;
  if (off > (long)FLEN_MAX) return -1;
  f->pos = (size_t)(base + off); f->eof = 0;
  return 0;
}
static long X_ftell__FILE_ptr(struct FILE *f) { __CPROVER_assert(f != 0 && f->open, "C17 ftell is given an open stream"); return (long)f->pos; }
static int X_fgetc__FILE_ptr(struct FILE *f) {
  __CPROVER_assert(f != 0 && f->open, "C17 fgetc is given an open stream");
  if (f->kind != K_READ) return EOF_;
  if (f->pos < g_disk_len) { unsigned char c = g_disk[f->pos]; f->pos++; return (int)c; }
  f->eof = 1; return EOF_;
}
static int X_feof__FILE_ptr(struct FILE *f) { __CPROVER_assert(f != 0 && f->open, "C17 feof is given an open stream"); return f->eof; }
static size_t X_fread__void_ptr_restrict_size_t_size_t_FILE_ptr_restrict(void *p, size_t size, size_t nmemb, struct FILE *f) {
  __CPROVER_assert(f != 0 && f->open, "C17 fread is given an open stream");
  g_fread_calls++; g_fread_buf = p; g_fread_size = size; g_fread_nmemb = nmemb; g_fread_stream = f;
  if (f->kind != K_READ || size == 0 || nmemb == 0) return 0;
  size_t avail = f->pos < g_disk_len ? g_disk_len - f->pos : 0, got, ret;
  if (size == 1) { got = nmemb < avail ? nmemb : avail; ret = got; }
  else { ret = nondet_size(); __CPROVER_assume(ret <= nmemb && ret <= avail); got = nondet_size(); __CPROVER_assume(got <= avail && got >= ret); }   /* whole elements only; not used by the clauses */
  __CPROVER_assert(got == 0 || __CPROVER_w_ok(p, got), "C17 the buffer given to fread holds the bytes read");
  if (g_k < got) ((unsigned char *)p)[g_k] = g_disk[f->pos + g_k];     /* the byte at the ghost index */
  if (size == 1 && got < nmemb) f->eof = 1;
  f->pos += got;
  return ret;
}
static size_t X_fwrite__void_ptr_restrict_size_t_size_t_FILE_ptr_restrict(void *p, size_t size, size_t nmemb, struct FILE *f) {
  __CPROVER_assert(f != 0 && f->open, "C17 fwrite is given an open stream");
  g_fwrite_calls++;
  if (f->kind == K_READ || size == 0 || nmemb == 0) return 0;
  __CPROVER_assume(size <= FLEN_MAX && nmemb <= FLEN_MAX);
  size_t n = size * nmemb, wp = f->kind == K_APPEND ? g_disk_len : f->pos;
  __CPROVER_assume(wp <= g_disk_cap && n <= g_disk_cap - wp);          /* the disk is not full */
  __CPROVER_assert(__CPROVER_r_ok(p, n), "C17 the data given to fwrite holds size*nmemb bytes");
  if (g_k < n) g_disk[wp + g_k] = ((unsigned char *)p)[g_k];           /* the byte at the ghost index */
  if (wp + n > g_disk_len) g_disk_len = wp + n;
  f->pos = wp + n;
  return nmemb;
}
static void *X_malloc__size_t(size_t n) { void *p = malloc(n); __CPROVER_assume(p != 0); return p; }
static void X_free__void_ptr(void *p) { free(p); }
static void X_swap__unsigned_long_ref_unsigned_long_ref(unsigned long *a, unsigned long *b) { unsigned long t = *a; *a = *b; *b = t; }
static void X_swap__unsigned_char_ptr_ref_unsigned_char_ptr_ref(unsigned char **a, unsigned char **b) { unsigned char *t = *a; *a = *b; *b = t; }
static struct ostream *X_operator__basic_ostream_char_std_char_traits_char_ref_char_ptr(struct ostream *o, const char *s) { g_cerr_writes++; return o; }
static const char *Str__c_str(struct Str *s) { return s->p; }
static size_t Str__length(struct Str *s) { return s->len; }
static void Str__ctor__char_ptr_std_basic_string_char_size_type_std_allocator_char_ref(struct Str *d, char *p, size_t n) {
  __CPROVER_assert(n == 0 || __CPROVER_r_ok(p, n), "C17 std::string(ptr, n) is given n readable bytes");
  char *b = malloc(n + 1); __CPROVER_assume(b != 0);
  if (g_k < n) b[g_k] = p[g_k];
  d->p = b; d->len = n;
}
static struct Str *Path__toString(struct Path *p) { return &p->m_path; }
static _Bool Path__exists(struct Path *p) { return g_exists; }
static _Bool Path__isDirectory(struct Path *p) { return g_isdir; }
static void Path__ctor__Str_ref(struct Path *p, struct Str *s) { p->m_path = *s; }
static void Path__dtor(struct Path *p) { }
