/* After the lowered records: the map entry, the specification macros and the prototypes of the models. */
#ifndef VERIF_RT_MID_H
#define VERIF_RT_MID_H
#define BEQ(a, b) (!(a) == !(b))
#define KIDS(n) ((n)->m_children)
#define CH(n, i) (&KIDS(n).kids[i])
#define KEYOF(n, i) (KIDS(n).keys[i])
#define MCH(m, i) (&(m)->kids[i])
/* ---- the routing key seen from a level view ---- */
#define LCOUNT(lv) ((lv).m_key->m_levels.len)
#define LVL(lv) ((lv).m_key->m_levels.items[(lv).m_level])
#define NLVL(lv) ((lv).m_key->m_levels.items[(lv).m_level + 1])
#define LEAF(lv) ((size_t)(lv).m_level + 1 == LCOUNT(lv))
#define LMAX ((size_t)1 << 20)
/* (the objects themselves - key, level array, node, entry array, subject - are allocated by the harness with typed
 * allocations of symbolic size: an __CPROVER_is_fresh byte array of 200-byte entries exhausts the array theory) */
#define KEY_SHAPE(lv) ((lv).m_key != 0 && LCOUNT(lv) >= 1 && LCOUNT(lv) <= LMAX)
#define KEY_AT(lv, n) ((lv).m_key == g_key && (lv).m_level >= 0 && (size_t)(lv).m_level < LCOUNT(lv) && (lv).m_level == KIDS(n).g_lvl)
/* level-by-level matching: a string level by equality, a regex level by (uninterpreted) full match */
#define MATCH(n, lv) (LVL(lv).is_rx ? (n)->m_name.g_rxm : LVL(lv).s.id == (n)->m_name.id)
#define MATCHC(n, i, lv) (NLVL(lv).is_rx ? CH(n, i)->m_name.g_rxm : NLVL(lv).s.id == CH(n, i)->m_name.id)
/* ---- shape of one node ---- */
#define NODE_SHAPE(n) ((n) != 0 && g_rcap >= 1 && g_rcap <= RCAP_MAX && KIDS(n).len < g_rcap)
/* folds over the children */
#define PSUM(n, i) (KIDS(n).psum[i])
#define PMAX(n, i) (KIDS(n).pmax[i])
#define PANY(n, i) (KIDS(n).pany[i])
#define MAXZ(a, b) ((a) < (b) ? (b) : (a))
#define FOLD_BASE(n) (PSUM(n, 0) == 0 && PMAX(n, 0) == 0 && !PANY(n, 0))
#define FOLD_SUM(n) PSUM(n, KIDS(n).len)
#define FOLD_MAX(n) PMAX(n, KIDS(n).len)
#define FOLD_ANY(n) PANY(n, KIDS(n).len)
/* std::map::find for the string g_fkey; keys are pairwise distinct */
#define FIND_FACTS(n) (KIDS(n).g_fidx <= KIDS(n).len && (KIDS(n).g_fidx < KIDS(n).len ==> KEYOF(n, KIDS(n).g_fidx) == KIDS(n).g_fkey) && \
                       ((KIDS(n).g_wchild < KIDS(n).len && KIDS(n).g_wchild != KIDS(n).g_fidx) ==> KEYOF(n, KIDS(n).g_wchild) != KIDS(n).g_fkey) && \
                       ((g_ci < KIDS(n).len && g_ci != KIDS(n).g_fidx) ==> KEYOF(n, g_ci) != KIDS(n).g_fkey))
#define FIND_KEY(n, lv) ((!LEAF(lv) && !NLVL(lv).is_rx) ==> KIDS(n).g_fkey == NLVL(lv).s.id)
/* W and the subject of this node */
#define W_FACTS(n) ((KIDS(n).g_isw ==> KIDS(n).g_win) && \
                    ((KIDS(n).g_win && !KIDS(n).g_isw) ==> (KIDS(n).g_wchild < KIDS(n).len && KEYOF(n, KIDS(n).g_wchild) == CH(n, KIDS(n).g_wchild)->m_name.id)) && \
                    ((n)->m_subject.p != 0 ==> ((n)->m_subject.p->c.sig == g_sig && BEQ((n)->m_subject.p->c.is_w, KIDS(n).g_isw))))
#define CHW(n) CH(n, KIDS(n).g_wchild)
/* ---- the recursive specification functions, unfolded once at node n ---- */
#define HAS_SUBJ(n) ((n)->m_subject.p != 0)
#define DEF_CNT(n, lv) (KIDS(n).g_cnt == (!MATCH(n, lv) ? 0 : LEAF(lv) ? (HAS_SUBJ(n) ? (size_t)1 : (size_t)0) : NLVL(lv).is_rx ? FOLD_SUM(n) : \
                        KIDS(n).g_fidx < KIDS(n).len ? KIDS(CH(n, KIDS(n).g_fidx)).g_cnt : (size_t)0))
#define DEF_WHIT(n, lv) (BEQ(KIDS(n).g_whit, MATCH(n, lv) && (KIDS(n).g_isw ? (LEAF(lv) && HAS_SUBJ(n)) : \
                                                   (!LEAF(lv) && KIDS(n).g_win && KIDS(CHW(n)).g_whit))) && \
                         ((KIDS(n).g_win && !KIDS(n).g_isw && !LEAF(lv) && KIDS(CHW(n)).g_whit) ==> MATCHC(n, KIDS(n).g_wchild, lv)))
#define DEF_EX(n, lv) (BEQ(KIDS(n).g_ex, MATCH(n, lv) && (LEAF(lv) || (NLVL(lv).is_rx ? FOLD_ANY(n) : \
                        (KIDS(n).g_fidx < KIDS(n).len && KIDS(CH(n, KIDS(n).g_fidx)).g_ex)))))
#define DEF_DEPTH(n) (KIDS(n).g_depth == 1 + FOLD_MAX(n))

/* ---- shrink (C13): liveness, one level unfolded ---- */
#define HSUBS(n) (HAS_SUBJ(n) && KIDS(n).g_hsubs)
#define DEF_LIVE(n) (BEQ(KIDS(n).g_live, HSUBS(n) || KIDS(n).g_clive))
/* facts every child c satisfies, over the fields of the child node only (instances of the hereditary invariant) */
#define KID_FACTS(m, c) ((long)KIDS(c).g_lvl == (long)(m)->g_lvl + 1 &&                       /* a child is one level deeper */ \
                         BEQ(KIDS(c).g_live, HSUBS(c) || KIDS(c).g_clive) &&              /* LIVE unfolded at the child */ \
                         (!KIDS(c).g_clive || KIDS(c).len > 0) &&                          /* a live grandchild is a grandchild */ \
                         (!(KIDS(c).g_win && g_wlive) || KIDS(c).g_live) &&                /* W live and below c: c is live */ \
                         (!(m)->g_full || KIDS(c).g_full) &&                               /* FULL is hereditary */ \
                         (!KIDS(c).g_live || (m)->g_clive))                                /* a live child makes g_clive true */
/* what the recursive step leaves behind at a child it was applied to (the twin's ensures, restated) */
#define KID_POSTREC(c) (!(KIDS(c).g_full && KIDS(c).len > 0) || KIDS(c).g_clive)
/* the same for the tracked child *g_trk at index g_tx of node n (requires / loop invariants), with the map invariant key = name */
#define TRK_IN(n) (g_tx < KIDS(n).len)
#define KIDT(n) (TRK_IN(n) ==> (KID_FACTS(&KIDS(n), g_trk) && KEYOF(n, g_tx) == g_trk->m_name.id))
#define KIDTL(n, pos) (TRK_IN(n) ==> (KID_FACTS(&KIDS(n), g_trk) && (g_tx < (pos) ==> KID_POSTREC(g_trk))))
/* the path from n towards W, one step */
#define W_PATH(n) ((KIDS(n).g_isw ==> KIDS(n).g_win) && KIDS(n).g_wchild <= KIDS(n).len && \
                   ((KIDS(n).g_win && !KIDS(n).g_isw) ==> KIDS(n).g_wchild < KIDS(n).len))
/* self: W and liveness witnesses */
#define LIVE_FACTS(n) (DEF_LIVE(n) && (!(KIDS(n).g_win && g_wlive) || KIDS(n).g_live) && (!(KIDS(n).g_isw && g_wlive) || HSUBS(n)) && \
                       KIDS(n).g_lchild <= KIDS(n).len && (KIDS(n).g_clive ==> KIDS(n).g_lchild < KIDS(n).len) && \
                       (!HAS_SUBJ(n) || BEQ((n)->m_subject.p->c.has_subs, KIDS(n).g_hsubs)))
#define FULL_FACTS(n, lv) (KIDS(n).g_full ==> (MATCH(n, lv) && (KIDS(n).len == 0 || (!LEAF(lv) && NLVL(lv).is_rx))))
#define ERASE_IF_SHRINK X_erase_if__map_std_basic_string_char_tulz_SubjectRouter_Node_std_less_std_basic_string_char_std_allocator_std_pair_const_std_basic_string_char_tulz_SubjectRouter_Node_ref_closure_Node__shrink_1

/* ---- models (specs/rt_models.h) ---- */
static void Str__ctor_copy(struct Str *s, struct Str *o) { s->id = o->id; s->g_rxm = nondet_bool(); }
static void Str__ctor_move(struct Str *s, struct Str *o) { s->id = o->id; s->g_rxm = nondet_bool(); }
static void Str__dtor(struct Str *s) { }
static void Str__operator_basic_string_view(struct Str *s, struct SV *r) { r->id = s->id; r->src = s; }
static const char *SV__begin(struct SV *v) { return (const char *)v->src; }
static const char *SV__end(struct SV *v) { return (const char *)v->src; }
static _Bool X_op_eq__basic_string_view_char_std_char_traits_char_type_identity_t_basic_string_view_char_std_char_traits_char(struct SV a, struct SV b) { return a.id == b.id; }
static size_t LvlVec__size(struct LvlVec *v) { return v->len; }
static struct Lvl *LvlVec__op_index(struct LvlVec *v, size_t i) { __CPROVER_assert(i < v->len, "vector index in range"); return &v->items[i]; }
static struct Str *X_get_if__variant_std_basic_string_char_std_basic_regex_char_ptr__to_add_pointer_t_const_std_basic_string_char(struct Lvl *l) { return l->is_rx ? (struct Str *)0 : &l->s; }
static struct Rx *X_get_if__variant_std_basic_string_char_std_basic_regex_char_ptr__to_add_pointer_t_const_std_basic_regex_char(struct Lvl *l) { return l->is_rx ? &l->rx : (struct Rx *)0; }
static struct Str *X_get__variant_std_basic_string_char_std_basic_regex_char_ref__to_Str_ref(struct Lvl *l) { __CPROVER_assert(!l->is_rx, "std::get<std::string> on a level that holds a string (bad_variant_access otherwise)"); return &l->s; }
static struct Rx *X_get__variant_std_basic_string_char_std_basic_regex_char_ref__to_Rx_ref(struct Lvl *l) { __CPROVER_assert(l->is_rx, "std::get<std::regex> on a level that holds a regex (bad_variant_access otherwise)"); return &l->rx; }
/* regex_match over the characters of a node name: the uninterpreted fact recorded at that node */
static _Bool X_regex_match__char_ptr_char_ptr_basic_regex_char_std_regex_traits_char_ref_regex_constants_match_flag_type(const char *b, const char *e, struct Rx *rx) {
  return ((const struct Str *)b)->g_rxm; }
static size_t *X_max__unsigned_long_ref_unsigned_long_ref(size_t *a, size_t *b) { return *a < *b ? b : a; }
static void CMap__begin(struct CMap *m, struct CIt *r);
static void CMap__end(struct CMap *m, struct CIt *r);
static _Bool CMap__empty(struct CMap *m);
static _Bool CIt_eq(struct CIt *a, struct CIt *b);
#define X_op_eq__std_Rb_tree_iterator_std_pair_const_std_basic_string_char_tulz_SubjectRouter_Node_Self_ref_std_Rb_tree_iterator_std_pair_const_std_basic_string_char_tulz_SubjectRouter_Node_Self_ref CIt_eq
#define X_op_eq__std_Rb_tree_const_iterator_std_pair_const_std_basic_string_char_tulz_SubjectRouter_Node_Self_ref_std_Rb_tree_const_iterator_std_pair_const_std_basic_string_char_tulz_SubjectRouter_Node_Self_ref CIt_eq
static struct CIt *CIt__op_inc(struct CIt *i);
static struct CEnt *CIt__op_star(struct CIt *i);
static struct CEnt *CIt__op_arrow(struct CIt *i);
static void CMap__find(struct CMap *m, struct Str *key, struct CIt *r);
static void SPtr__ctor_default(struct SPtr *p);
static struct Subj0 *SPtr__get(struct SPtr *p);
static struct Subj0 *SPtr__op_arrow(struct SPtr *p);
static _Bool X_op_eq__unique_ptr_tulz_Subject_std_default_delete_tulz_Subject_ref_void_ptr(struct SPtr *p, void *z);
struct closure_Node__exists_1; struct closure_Node__shrink_1;
static _Bool X_any_of__CIt_CIt_closure_Node__exists_1(struct CIt b, struct CIt e, struct closure_Node__exists_1 pred);
static size_t ERASE_IF_SHRINK(struct CMap *m, struct closure_Node__shrink_1 pred);
static void CMap__ctor_default(struct CMap *m);
static void CMap__ctor_move(struct CMap *m, struct CMap *o);
static void CMap__dtor(struct CMap *m);
static void SPtr__ctor_move(struct SPtr *p, struct SPtr *o);
static void SPtr__dtor(struct SPtr *p);
static void SPtr__reset(struct SPtr *p, struct Subj0 *s);
static void CEnt__ctor__Str_ref_Node_rref(struct CEnt *e, struct Str *name, struct Node *n);
static void CMap__insert(struct CMap *m, struct CEnt *val, struct CIns *r);
/* the last level of the key */
#define LASTLVL(lv) ((lv).m_key->m_levels.items[LCOUNT(lv) - 1])
#endif
