/* After the lowered records: prototypes of the std::string / libc models (specs/path_models.h). */
#ifndef VERIF_PATH_MID_H
#define VERIF_PATH_MID_H
#define ISSEP(c) ((c) == '/' || (c) == '\\')
static char str_at(const struct Str *s, size_t i);
static void Str__ctor_default(struct Str *s);
static void Str__ctor_copy(struct Str *d, struct Str *s);
static struct Str *Str__assign_copy(struct Str *d, struct Str *s);
static struct Str *Str__op_assign(struct Str *d, struct Str *s);
static void Str__dtor(struct Str *s);
static _Bool Str__empty(struct Str *s);
static size_t Str__size(struct Str *s);
static char *Str__back(struct Str *s);
static size_t Str__find(struct Str *s, char c);
static size_t Str__find_last_of_1(struct Str *s, const char *set);
static size_t Str__find_last_of_2(struct Str *s, const char *set, size_t pos);
static struct Str *Str__erase_2(struct Str *s, size_t pos, size_t n);
static size_t Str__find_last_not_of_2(struct Str *s, const char *set, size_t pos);
static size_t Str__find_last_not_of_1(struct Str *s, const char *set);
static struct Str *Str__erase_1(struct Str *s, size_t pos);
static const char *Str__c_str(struct Str *s);
static void Str__ctor__char_ptr_std_allocator_char_ref(struct Str *d, const char *c);
static void str_add_char(struct Str *a, char c, struct Str *r);
static void str_add_str(struct Str *a, struct Str *b, struct Str *r);
#define X_op_add__basic_string_char_std_char_traits_char_std_allocator_char_ref_char str_add_char
#define X_op_add__basic_string_char_std_char_traits_char_std_allocator_char_rref_basic_string_char_std_char_traits_char_std_allocator_char_ref str_add_str
#define X_op_add__basic_string_char_std_char_traits_char_std_allocator_char_ref_basic_string_char_std_char_traits_char_std_allocator_char_ref str_add_str
static int X_chdir__char_ptr(const char *c);
static _Bool Path__exists(struct Path *p);
static struct DIR *X_opendir__char_ptr(const char *c);
static struct dirent *X_readdir__DIR_ptr(struct DIR *d);
static int X_closedir__DIR_ptr(struct DIR *d);
static int X_strcmp__char_ptr_char_ptr(const char *a, const char *b);
static void PathList__ctor_default(struct PathList *l);
static void PathList__ctor_move(struct PathList *l, struct PathList *o);
static void PathList__dtor(struct PathList *l);
static struct Path *PathList__emplace_front(struct PathList *l, char **name);
static char *X_getcwd__char_ptr_size_t(char *buf, size_t n);
#endif
