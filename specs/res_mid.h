#define OP_NONE tulz_rwp_Resource_OpType_None
#define OP_READ tulz_rwp_Resource_OpType_Read
#define OP_WRITE tulz_rwp_Resource_OpType_Write
/* prototypes of the models that the lowered Resource code calls (definitions: specs/res_models.h) */
struct closure_Res__lock_1;
enum { ACC_R, ACC_W };
_Bool g_mheld;      /* ghost: the executing thread holds m_mutex */
/* C15 ownership discipline: every field of Resource is guarded by m_mutex */
static int verif_access(int field, int kind, void *obj) { __CPROVER_assert(g_mheld, "C15 the state of a Resource is read and written only with its mutex held"); return 0; }
static _Bool Deq__empty(struct Deq *q);
static void Deq__push_back(struct Deq *q, struct ResOp *x);
static struct ResOp *Deq__back(struct Deq *q);
static struct ResOp *Deq__front(struct Deq *q);
static void Deq__pop_front(struct Deq *q);
static void Deq__ctor_default(struct Deq *q);
static void Mutex__ctor_default(struct Mutex *m);
static void Mutex__lock(struct Mutex *m);
static void Mutex__unlock(struct Mutex *m);
static void CondVar__ctor_default(struct CondVar *c);
static void CondVar__notify_all(struct CondVar *c);
static void CondVar__notify_one(struct CondVar *c);
static void CondVar__wait(struct CondVar *c, struct ULock *l, struct closure_Res__lock_1 pred);
static void ULock__ctor__Mutex_ref(struct ULock *l, struct Mutex *m);
static void ULock__dtor(struct ULock *l);
