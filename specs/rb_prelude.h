/* Prelude for the lowered RingBuffer translation unit: element model, allocation/memcpy models,
 * the std:: helpers the header uses.  Everything here is on the *assumed* side. */
#ifndef VERIF_RB_PRELUDE_H
#define VERIF_RB_PRELUDE_H
#include "elem.h"
_Bool nondet_bool(void);

#ifndef CAP_MAX
#define CAP_MAX ((size_t)1 << 30)
#endif

/* realloc: new block, common prefix preserved, old block released.  Only the watched element is
 * copied explicitly; every other byte of the new block is left nondeterministic, which
 * over-approximates the real function (the watched index is arbitrary). */
static void *verif_realloc(void *old, size_t n) {
  if (n == 0 && old != 0 && nondet_bool()) {
    /* realloc(p, 0) is implementation-defined: glibc frees p and returns NULL */
    g_frees++;
    if (__CPROVER_POINTER_OBJECT(old) == g_wobj) {
      if (g_wp < __CPROVER_OBJECT_SIZE(old) / sizeof(struct Elem))
        __CPROVER_assert(((struct Elem *)old)[g_wp].life != LIVE, "C09 no live element is cut off by realloc");
      g_freed_w = 1;
    }
    free(old);
    return 0;
  }
  void *p = malloc(n);
  __CPROVER_assume(p != 0);
  g_newobj = __CPROVER_POINTER_OBJECT(p);
  g_allocs++; g_reallocs++;
  size_t nc = n / sizeof(struct Elem);
  size_t oc = 0;
  _Bool moved = 0;
  if (old != 0) {
    oc = __CPROVER_OBJECT_SIZE(old) / sizeof(struct Elem);
    g_frees++;
    if (__CPROVER_POINTER_OBJECT(old) == g_wobj) {
      if (g_wp < nc) {
        if (g_wp < oc) ((struct Elem *)p)[g_wp] = ((struct Elem *)old)[g_wp];
        g_wobj = __CPROVER_POINTER_OBJECT(p);        /* the watched slot (existing or future) moves with the block */
        moved = 1;
      } else {
        if (g_wp < oc)
          __CPROVER_assert(((struct Elem *)old)[g_wp].life != LIVE, "C09 no live element is cut off by realloc");
        g_freed_w = 1;
      }
    }
    free(old);
  }
  if (!moved) __CPROVER_assume(g_wobj != g_newobj);
  /* storage beyond the old block is raw: instantiated at g_np and at the watched slot */
  if (g_np >= oc && g_np < nc) __CPROVER_assume(((struct Elem *)p)[g_np].life == RAW);
  if (moved && g_wp >= oc && g_wp < nc) __CPROVER_assume(((struct Elem *)p)[g_wp].life == RAW);
  return p;
}

/* memcpy over whole elements: destination range becomes nondeterministic except for the copy of the
 * watched element, whose relocation is recorded. */
static void *verif_memcpy(void *dst, const void *src, size_t n) {
  if (n > 0) {
    __CPROVER_assert(__CPROVER_w_ok(dst, n), "C09 memcpy destination inside its allocation");
    __CPROVER_assert(__CPROVER_r_ok(src, n), "C09 memcpy source inside its allocation");
    __CPROVER_assert(n % sizeof(struct Elem) == 0, "memcpy of whole elements");
    __CPROVER_havoc_slice(dst, n);
    size_t si = (size_t)__CPROVER_POINTER_OFFSET(src) / sizeof(struct Elem);
    size_t di = (size_t)__CPROVER_POINTER_OFFSET(dst) / sizeof(struct Elem);
    size_t cnt = n / sizeof(struct Elem);
    if (__CPROVER_POINTER_OBJECT(src) == g_wobj && g_wp >= si && g_wp - si < cnt) {
      ((struct Elem *)dst)[g_wp - si] = ((const struct Elem *)src)[g_wp - si];
      g_reloc = 1; g_reloc_obj = __CPROVER_POINTER_OBJECT(dst); g_reloc_idx = di + (g_wp - si); g_reloc_count++;
    }
  }
  return dst;
}
#define malloc(n) verif_malloc(n)
#define free(p) verif_free(p)
#define realloc(p, n) verif_realloc(p, n)
#define memcpy(d, s, n) verif_memcpy(d, s, n)

/* ---- std:: helpers (standard definitions) ---- */
static unsigned long *X_min__unsigned_long_ref_unsigned_long_ref(unsigned long *a, unsigned long *b) { return (*b < *a) ? b : a; }
static void X_swap__long_ref_long_ref(long *a, long *b) { long t = *a; *a = *b; *b = t; }
static void X_swap__unsigned_long_ref_unsigned_long_ref(unsigned long *a, unsigned long *b) { unsigned long t = *a; *a = *b; *b = t; }
static void X_swap__Elem_ptr_ref_Elem_ptr_ref(struct Elem **a, struct Elem **b) { struct Elem *t = *a; *a = *b; *b = t; }

/* std::copy / std::move(range) over elements: element-wise copy (move) ASSIGNMENT onto existing objects.  As with memcpy,
 * only the elements at the ghost indices (the watched slot, g_k) are assigned explicitly; the rest of the destination
 * range is left nondeterministic. */
size_t g_k;
static struct Elem *X_copy__Elem_ptr_Elem_ptr_Elem_ptr(struct Elem *f, struct Elem *l, struct Elem *o) {
  __CPROVER_assert(__CPROVER_same_object(f, l) && f <= l, "std::copy: valid source range");
  size_t n = (size_t)(l - f);
  if (n > 0) {
    __CPROVER_assert(__CPROVER_r_ok(f, n * sizeof(struct Elem)) && __CPROVER_w_ok(o, n * sizeof(struct Elem)), "std::copy stays inside both ranges");
    size_t oi = (size_t)__CPROVER_POINTER_OFFSET(o) / sizeof(struct Elem);
    struct Elem wsave; _Bool wat = (__CPROVER_POINTER_OBJECT(o) == g_wobj && g_wp >= oi && g_wp - oi < n);
    struct Elem ksave; _Bool kat = (g_k >= oi && g_k - oi < n);
    if (wat) wsave = o[g_wp - oi];
    if (kat) ksave = o[g_k - oi];
    __CPROVER_havoc_slice(o, n * sizeof(struct Elem));
    if (kat) { o[g_k - oi] = ksave; Elem__assign_copy(&o[g_k - oi], &f[g_k - oi]); }
    if (wat && !(kat && g_k == g_wp)) { o[g_wp - oi] = wsave; Elem__assign_copy(&o[g_wp - oi], &f[g_wp - oi]); }
  }
  return o + n;
}
/* std::exchange for the shapes a move constructor would use */
static unsigned long X_exchange__unsigned_long_ref_int_rref(unsigned long *o, int *n) { unsigned long t = *o; *o = (unsigned long)*n; return t; }
static unsigned long X_exchange__unsigned_long_ref_unsigned_long_rref(unsigned long *o, unsigned long *n) { unsigned long t = *o; *o = *n; return t; }
static long X_exchange__long_ref_int_rref(long *o, int *n) { long t = *o; *o = (long)*n; return t; }
static long X_exchange__long_ref_long_rref(long *o, long *n) { long t = *o; *o = *n; return t; }
static struct Elem *X_exchange__Elem_ptr_ref_void_ptr_rref(struct Elem **o, void **n) { struct Elem *t = *o; *o = (struct Elem *)*n; return t; }

struct std_initializer_list_Elem { struct Elem *_M_array; size_t _M_len; };
static size_t std_initializer_list_Elem__size(struct std_initializer_list_Elem *l) { return l->_M_len; }
static struct Elem *std_initializer_list_Elem__begin(struct std_initializer_list_Elem *l) { return l->_M_array; }
static struct Elem *std_initializer_list_Elem__end(struct std_initializer_list_Elem *l) { return l->_M_array + l->_M_len; }

/* ---- abstraction helpers used by the contracts ---- */
#define SCAP(s) ((ssize_t)(s)->m_capacity)
#define WF(s) ((s)->m_capacity >= 1 && (s)->m_capacity <= CAP_MAX && (s)->m_size <= (s)->m_capacity && \
               0 <= (s)->m_pos && (s)->m_pos < SCAP(s))
/* physical slot of logical index k (k < cap) */
#define PHYS(pos, k, cap) (((pos) + (ssize_t)(k)) >= (ssize_t)(cap) ? ((pos) + (ssize_t)(k)) - (ssize_t)(cap) : ((pos) + (ssize_t)(k)))
/* logical index of physical slot p (p < cap) */
#define LOGI(pos, p, cap) ((ssize_t)(p) >= (pos) ? (size_t)((ssize_t)(p) - (pos)) : (size_t)((ssize_t)(p) - (pos) + (ssize_t)(cap)))
#endif
