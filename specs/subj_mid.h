/* prototypes of the models the lowered Subject code calls (definitions: specs/subj_models.h) */
struct closure_Subj__unsubscribeById_1;
static void X_swap__Subj_ptr_ref_Subj_ptr_ref(struct Subj **a, struct Subj **b) { struct Subj *t = *a; *a = *b; *b = t; }
static void X_swap__Obsv_ptr_ref_Obsv_ptr_ref(struct Obsv **a, struct Obsv **b) { struct Obsv *t = *a; *a = *b; *b = t; }
static struct Obsv *OPtr__get(struct OPtr *p) { return p->p; }
static void OPtr__dtor(struct OPtr *p);
static void OAuto__op_star(struct OAuto *a, struct OPtr *ret) { ret->p = a->m_ptr.p; a->m_ptr.p = 0; }
static void Fn__ctor_move(struct Fn *d, struct Fn *s) { d->target = s->target; s->target = 0; }
static void Fn__dtor(struct Fn *f) { }
static struct Fn *Fn__op_assign(struct Fn *d, struct Fn *s) { d->target = s->target; s->target = 0; return d; }
static void Fn__op_call(struct Fn *f, int args);
static _Bool OList__empty(struct OList *l) { return l->len == 0; }
static void OList__begin(struct OList *l, struct OIt *r) { r->l = l; r->pos = 0; }
static void OList__end(struct OList *l, struct OIt *r) { r->l = l; r->pos = l->len; }
static struct ODet *OList__emplace_front(struct OList *l, struct OPtr *p, unsigned int *id);
static void OList__remove_if(struct OList *l, struct closure_Subj__unsubscribeById_1 pred);
static struct ODet *OIt__op_star(struct OIt *i);
static struct OIt *OIt__op_inc(struct OIt *i) { i->pos++; return i; }
static _Bool X_op_eq__OIt_ref_OIt_ref(struct OIt *a, struct OIt *b) { return a->pos == b->pos; }
static void CList__ctor_default(struct CList *l);
static void CList__dtor(struct CList *l) { }
static void CList__begin(struct CList *l, struct CIt *r) { r->l = l; r->pos = 0; }
static void CList__end(struct CList *l, struct CIt *r) { r->l = l; r->pos = l->len; }
static struct CDet *CList__emplace_front(struct CList *l, struct Obsv **o, unsigned int *id);
static struct CDet *CIt__op_star(struct CIt *i);
static struct CIt *CIt__op_inc(struct CIt *i) { i->pos++; return i; }
static _Bool X_op_eq__CIt_ref_CIt_ref(struct CIt *a, struct CIt *b) { return a->pos == b->pos; }
static _Bool IdSet__contains(struct IdSet *s, unsigned int *id);
static void IdSet__emplace(struct IdSet *s, unsigned int *id, struct IdIns *r);
static void IdSet__erase(struct IdSet *s, unsigned int *id);
static size_t IdSet__size(struct IdSet *s);
static _Bool IdSet__empty(struct IdSet *s);
void Obsv__op_call__virtual(struct Obsv *o, int args);
_Bool Obsv__isValid__virtual(struct Obsv *o);

/* equality of truth values (a havocked _Bool object may hold any non-zero byte) */
#define BEQ(a, b) (!(a) == !(b))
#define ITEMS(s) ((s)->m_observers.items)
#define LEN(s) ((s)->m_observers.len)
#define SUBJ_INV_LEN(s) (LEN(s) <= g_scap)
#define SUBJ_INV_W(s) (g_w_in ==> (g_oi < LEN(s) && ITEMS(s)[g_oi].subscriptionId == g_wid && ITEMS(s)[g_oi].observer.p == g_wobs && g_w_alive && g_wobs != 0 && g_wid < (s)->m_subscriptionCounter))
#define SUBJ_INV_O(s) ((g_o2 < LEN(s) && !(g_w_in && g_o2 == g_oi)) ==> (ITEMS(s)[g_o2].subscriptionId != g_wid && ITEMS(s)[g_o2].observer.p != g_wobs \
            && ITEMS(s)[g_o2].observer.p != 0 && ITEMS(s)[g_o2].subscriptionId < (s)->m_subscriptionCounter))
#define SUBJ_INV_ORD(s) (((g_w_in && g_o2 < LEN(s) && g_o2 < g_oi) ==> ITEMS(s)[g_o2].subscriptionId < g_wid) && \
                         ((g_w_in && g_o2 < LEN(s) && g_o2 > g_oi) ==> ITEMS(s)[g_o2].subscriptionId > g_wid))
#define SUBJ_INV(s) (SUBJ_INV_LEN(s) && SUBJ_INV_W(s) && SUBJ_INV_O(s) && SUBJ_INV_ORD(s))

/* what loop 0 of notify() establishes about every snapshot entry k other than the watched subscription's (proved as a
 * loop invariant for the arbitrary index g_c2; CIt__op_star instantiates it at the entry being visited) */
#define SNAP_OTHER(it, k) ((it)[k].subscriptionId != g_wid && (it)[k].observer != g_wobs)
struct EObs *g_w;            /* the watched observer object (assigned concretely by the notify harnesses) */
#define OBJ(p) __CPROVER_POINTER_OBJECT(p)
/* m_observers is the first member of Subject: the subject that owns a list (pointer ghosts cannot be dereferenced) */
#define SUBJ_OF(l) ((struct Subj *)(l))
_Static_assert(__builtin_offsetof(struct Subj, m_observers) == 0, "m_observers is the first member");
/* a subject whose sequence model is allocated, in a state satisfying the representation invariant */
#define SUBJ_OK0(s) (__CPROVER_is_fresh(s, sizeof(*(s))) && g_scap >= 1 && g_scap <= SCAP_MAX && \
                    __CPROVER_is_fresh(ITEMS(s), g_scap * sizeof(struct ODet)) && g_subj == (s) && \
                    __CPROVER_is_fresh(g_wobs, sizeof(struct EObs)) && SUBJ_INV(s) && !g_thrown)
#define SUBJ_OK(s) (SUBJ_OK0(s) && g_w_deletes == 0)
