#define strcmp(a, b) verif_strcmp(a, b)
#define LANG tulz_LocaleInfo_languageInfo
#define CTRY tulz_LocaleInfo_countryInfo
#define STREQ2(p, a, b) ((p) != 0 && (p)[0] == (a) && (p)[1] == (b) && (p)[2] == 0)
