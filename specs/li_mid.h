#define strcmp(a, b) verif_strcmp(a, b)
#define strncmp(a, b, n) verif_strncmp(a, b, n)
/* entry i of the language table matches the language part by code / by name; entry j of the country table matches */
#define CODEM(i) (SID(LANG[i].code) == g_lang_id)
#define NAMEM(i) (SID(LANG[i].value) == g_lang_id)
#define CMATCH(j) (SID(CTRY[j].code) == g_ctry_id || SID(CTRY[j].value) == g_ctry_id)
/* language_COUNTRY[.charset] with both parts shorter than the buffer */
#define FMT_OK (g_has_us && g_us < 64 && PARTEND > g_us && PARTEND - g_us - 1 < 64)
#define LANG tulz_LocaleInfo_languageInfo
#define CTRY tulz_LocaleInfo_countryInfo
#define STREQ2(p, a, b) ((p) != 0 && (p)[0] == (a) && (p)[1] == (b) && (p)[2] == 0)

static char **StrList__emplace_back__char_ptr_const(struct StrList *l, char **v) {
  __CPROVER_assert(l->len < LIST_CAP, "list model capacity");
  __CPROVER_assert(OBJ(v) == g_langobj, "C19 every language name returned refers to an entry of the language table");
  struct LEntry *ent = (struct LEntry *)((char *)v - offsetof(struct LEntry, value));    /* the entry whose name field is listed */
  g_last_idx = __CPROVER_POINTER_OFFSET(ent) / sizeof(struct LEntry);
  g_last_match = SID(ent->code) == g_buf_id || SID(ent->value) == g_buf_id;
  __CPROVER_assert(g_last_match, "C19 every language name listed belongs to an entry whose code or name is the language part");
  if (g_last_idx == g_w) { g_w_seen = 1; g_w_pos = l->len; }
  l->items[l->len] = *v; g_names_from_table++;
  return &l->items[l->len++];
}
