/* Prelude for the lowered Array<uint8_t> translation unit (assumed side): byte-granular models of
 * malloc/realloc/memcpy/free.  Only the byte at the arbitrary ghost index g_bk is copied explicitly; all other
 * destination bytes are left nondeterministic, which over-approximates the real functions. */
#ifndef VERIF_ARRB_PRELUDE_H
#define VERIF_ARRB_PRELUDE_H
#include <stddef.h>
#include <stdint.h>
#include <stdlib.h>
#include <string.h>
#include <sys/types.h>
size_t g_bk;                 /* watched byte index */
size_t g_allocs, g_frees, g_newobj, g_freedobj;
struct Elem { uint32_t serial; uint32_t life; };
static void *verif_malloc(size_t n) { void *p = malloc(n); __CPROVER_assume(p != 0); g_allocs++; g_newobj = __CPROVER_POINTER_OBJECT(p); return p; }
static void verif_free(void *p) { if (p != 0) { g_frees++; g_freedobj = __CPROVER_POINTER_OBJECT(p); } free(p); }
_Bool nondet_bool(void);
static void *verif_realloc(void *old, size_t n) {
  if (n == 0 && old != 0 && nondet_bool()) {      /* realloc(p, 0) is implementation-defined: glibc frees p and returns NULL */
    g_frees++; g_freedobj = __CPROVER_POINTER_OBJECT(old); free(old); return 0;
  }
  unsigned char *p = malloc(n); __CPROVER_assume(p != 0); g_allocs++; g_newobj = __CPROVER_POINTER_OBJECT(p);
  if (old != 0) {
    size_t oc = __CPROVER_OBJECT_SIZE(old);
    if (g_bk < n && g_bk < oc) p[g_bk] = ((unsigned char *)old)[g_bk];
    g_frees++; g_freedobj = __CPROVER_POINTER_OBJECT(old);
    free(old);
  }
  return p;
}
static void *verif_memcpy(void *dst, const void *src, size_t n) {
  if (n > 0) {
    __CPROVER_assert(__CPROVER_w_ok(dst, n), "C14 memcpy destination inside its allocation");
    __CPROVER_assert(__CPROVER_r_ok(src, n), "C14 memcpy source inside its allocation");
    __CPROVER_havoc_slice(dst, n);
    if (g_bk < n) ((unsigned char *)dst)[g_bk] = ((const unsigned char *)src)[g_bk];
  }
  return dst;
}
/* std::copy over bytes: as memcpy, element order irrelevant for disjoint ranges */
static unsigned char *X_copy__unsigned_char_ptr_unsigned_char_ptr_unsigned_char_ptr(unsigned char *f, unsigned char *l, unsigned char *o) {
  __CPROVER_assert(__CPROVER_same_object(f, l) && f <= l, "std::copy: valid source range");
  size_t n = (size_t)(l - f);
  verif_memcpy(o, f, n);
  return o + n;
}
#define malloc(n) verif_malloc(n)
#define free(p) verif_free(p)
#define realloc(p, n) verif_realloc(p, n)
#define memcpy(d, s, n) verif_memcpy(d, s, n)
static void X_swap__unsigned_long_ref_unsigned_long_ref(unsigned long *a, unsigned long *b) { unsigned long t = *a; *a = *b; *b = t; }
static void X_swap__unsigned_char_ptr_ref_unsigned_char_ptr_ref(unsigned char **a, unsigned char **b) { unsigned char *t = *a; *a = *b; *b = t; }
struct std_initializer_list_unsigned_char { unsigned char *_M_array; size_t _M_len; };
static size_t std_initializer_list_unsigned_char__size(struct std_initializer_list_unsigned_char *l) { return l->_M_len; }
static unsigned char *std_initializer_list_unsigned_char__begin(struct std_initializer_list_unsigned_char *l) { return l->_M_array; }
static unsigned char *std_initializer_list_unsigned_char__end(struct std_initializer_list_unsigned_char *l) { return l->_M_array + l->_M_len; }
#define LEN_MAX ((size_t)1 << 30)
#define OBJ(p) __CPROVER_POINTER_OBJECT(p)
#define ARRB_OK(s) (__CPROVER_is_fresh(s, sizeof(*(s))) && (s)->m_size <= LEN_MAX && \
                    (((s)->m_size == 0 && (s)->m_array == 0) || __CPROVER_is_fresh((s)->m_array, (s)->m_size)))
#define MINZ(a, b) ((a) < (b) ? (a) : (b))
#define CNTB (g_allocs < 8 && g_frees < 8)
unsigned char g_bval; size_t g_size0;
#endif
