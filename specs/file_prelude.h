/* Prelude for the lowered File.cpp (assumed side; DESIGN.md 5 C17).
 *
 * The ASSUMED stdio stream contract (C11 7.21 / POSIX, where text and binary streams are the same): one file on disk
 * (bytes g_disk[0 .. g_disk_len), symbolic length and contents) and streams onto it.  fopen interprets the mode string;
 * "r*" reads from position 0, "w*" truncates, "a*" writes at the end whatever the position; fgetc returns the byte as
 * an unsigned char converted to int, or EOF with the end-of-file indicator set; fseek clears the indicator; fread/fwrite
 * transfer size*nmemb bytes.  Copies of symbolic length are stated at the ghost index g_k (the byte at g_k is
 * transferred; no clause reads any other byte of the destination). */
#ifndef VERIF_FILE_PRELUDE_H
#define VERIF_FILE_PRELUDE_H
#include <stddef.h>
#include <stdint.h>
#include <stdlib.h>
_Bool nondet_bool(void);
size_t nondet_size(void);
int nondet_int(void);
#ifndef FLEN_MAX
#define FLEN_MAX ((size_t)1 << 30)
#endif
enum { K_READ = 1, K_WRITE = 2, K_APPEND = 3 };
struct FILE { size_t pos; _Bool eof, open, binary; int kind; };
struct Str { const char *p; size_t len; };
struct Path { struct Str m_path; };
struct ostream { int unused; };
struct ostream cerr;
/* the file on disk */
unsigned char *g_disk; size_t g_disk_len, g_disk_cap;
/* facts about the path given to open() */
_Bool g_exists, g_isdir;
/* ghost */
size_t g_k;
size_t g_pos0, g_wp0, g_len0; struct FILE *g_old_stream;   /* pre-state values bound in requires clauses */
int g_thrown, g_throw_code;             /* 0 none, 1 tulz::Exception(code), 2 other */
size_t g_fopen_calls, g_fclose_calls, g_fread_calls, g_fwrite_calls, g_cerr_writes;
struct FILE *g_closed_stream; const char *g_fopen_path;
void *g_fread_buf; size_t g_fread_size, g_fread_nmemb; struct FILE *g_fread_stream;
static void X_throw(const char *what) { g_thrown = 2; }
static void X_throw_code(const char *what, int code) { g_thrown = 1; g_throw_code = code; }
#endif
