/* rwp::Resource as a contract: lockRead grants shared, lockWrite exclusive access until the matching unlock */
static void Res__lockRead(struct Res *r) { __CPROVER_assert(g_access == A_NONE, "C11 no lock of the resource is held when a lock is requested"); g_access = A_SHARED; g_access_on = r; g_lock_calls++; }
static void Res__lockWrite(struct Res *r) { __CPROVER_assert(g_access == A_NONE, "C11 no lock of the resource is held when a lock is requested"); g_access = A_EXCL; g_access_on = r; g_lock_calls++; }
static void Res__unlockRead(struct Res *r) { __CPROVER_assert(g_access == A_SHARED && g_access_on == r, "C11 the read lock released is the one held"); g_access = A_NONE; g_unlock_calls++; }
static void Res__unlockWrite(struct Res *r) { __CPROVER_assert(g_access == A_EXCL && g_access_on == r, "C11 the write lock released is the one held"); g_access = A_NONE; g_unlock_calls++; }
/* SubjectRouter members: readers need shared or exclusive access to the router's resource, mutators exclusive access */
#define NEED_READ(self) __CPROVER_assert((self) == g_router && g_access != A_NONE && g_access_on == g_res, "C11 a reading router operation runs under the read (or write) lock of this router's resource"); g_inner_calls++
#define NEED_WRITE(self) __CPROVER_assert((self) == g_router && g_access == A_EXCL && g_access_on == g_res, "C11 a mutating router operation runs under the write lock of this router's resource"); g_inner_calls++
/* (C06 through the concurrent router: the wrapped call gets the key and the arguments that were passed, and its answer is returned) */
static struct RKey *g_key_seen; static int *g_arg_seen; static size_t g_ret_inner; static _Bool g_bret_inner;
static size_t Router__notify_1(struct Router *self, struct RKey *k) { NEED_READ(self); g_key_seen = k; size_t n; g_ret_inner = n; return n; }
static size_t Router__notify_2(struct Router *self, struct RKey *k, int *a) { NEED_READ(self); g_key_seen = k; g_arg_seen = a; size_t n; g_ret_inner = n; return n; }
static _Bool Router__exists(struct Router *self, struct RKey *k) { NEED_READ(self); g_key_seen = k; _Bool b = nondet_bool(); g_bret_inner = b; return b; }
static size_t Router__depth(struct Router *self) { NEED_READ(self); size_t n; g_ret_inner = n; return n; }
static void Router__shrink(struct Router *self, struct RKey *k) { NEED_WRITE(self); g_key_seen = k; }
static void Router__subscribe_2(struct Router *self, struct RKey *k, void *observer, void *ret) { NEED_WRITE(self); g_key_seen = k; }
/* Subscription<Args...>::unsubscribe through the default invoker mutates the router: exclusive access required */
static void tulz_USubscription_DefaultInvoker__unsubscribe(struct tulz_USubscription_DefaultInvoker *b) { __CPROVER_assert(g_access == A_EXCL && g_access_on == g_res, "C11 unsubscribing runs under the write lock of the router's resource"); g_inner_calls++; }
static void tulz_USubscription_DefaultInvoker_int__unsubscribe(struct tulz_USubscription_DefaultInvoker_int *b) { __CPROVER_assert(g_access == A_EXCL && g_access_on == g_res, "C11 unsubscribing runs under the write lock of the router's resource"); g_inner_calls++; }
/* the handle returned by subscribe() is created over the router's own resource */
static void CSub__ctor__Res_ref_tulz_Subscription(struct CSub *s, struct Res *r, struct tulz_Subscription *sub) { __CPROVER_assert(r == g_res, "C11 the subscription handle is bound to the resource of the router it came from"); g_sub_ctor_calls++; }
static void CSub__ctor__Res_ref_tulz_Subscription_int(struct CSub *s, struct Res *r, struct tulz_Subscription_int *sub) { __CPROVER_assert(r == g_res, "C11 the subscription handle is bound to the resource of the router it came from"); g_sub_ctor_calls++; }
static void CSub__dtor(struct CSub *s) { }
static void USub__ctor_move(struct USub *d, struct USub *s) { }
static void tulz_Subscription__dtor(struct tulz_Subscription *s) { }
static void tulz_Subscription_int__dtor(struct tulz_Subscription_int *s) { }
