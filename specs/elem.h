/* Specification element type (assumed side, see DESIGN.md 3.2 / 4.2).
 *
 * struct Elem stands for "every bitwise-relocatable element type with observable lifetime".
 * `life` travels in-band with the bytes, so memcpy/realloc relocation moves it exactly as bitwise
 * relocation moves a real object.  The special members are *models*: they update serial/life and,
 * for the one watched slot (object id + element index, integers), assert their lifetime
 * preconditions and count calls.  Fresh allocations are RAW at one arbitrary ghost index (g_np).
 */
#ifndef VERIF_ELEM_H
#define VERIF_ELEM_H
#include <stddef.h>
#include <stdint.h>
#include <stdlib.h>
#include <string.h>
#include <sys/types.h>

enum { RAW = 0, LIVE = 1, SHELL = 2 };
struct Elem { uint32_t serial; uint32_t life; };

/* ---- ghost state (nondeterministic at harness entry under dfcc) ---- */
size_t g_wobj;        /* object id of the watched buffer */
size_t g_wp;          /* watched element index inside it */
size_t g_np;          /* arbitrary index: every fresh allocation is RAW there */
size_t g_dtor_calls;  /* destructor calls on the watched slot */
size_t g_ctor_calls;  /* constructor calls on the watched slot */
size_t g_asgn_calls;  /* assignments onto the watched slot */
_Bool  g_reloc;       /* the watched element's bytes were relocated by memcpy/realloc */
size_t g_reloc_obj, g_reloc_idx, g_reloc_count;
_Bool  g_freed_w;     /* the watched buffer was freed */
size_t g_newobj;      /* object id of the most recent allocation */
size_t g_allocs, g_frees, g_reallocs;
_Bool  g_watch_new;   /* harness choice: the watched buffer is the first allocation made during the call */

#define IS_WATCH(e) (__CPROVER_POINTER_OBJECT(e) == g_wobj && __CPROVER_POINTER_OFFSET(e) >= 0 && \
                     (size_t)__CPROVER_POINTER_OFFSET(e) / sizeof(struct Elem) == g_wp)
#define GHOST_ELEM g_dtor_calls, g_ctor_calls, g_asgn_calls, g_reloc, g_reloc_obj, g_reloc_idx, \
                   g_reloc_count, g_freed_w, g_newobj, g_allocs, g_frees, g_reallocs, g_wobj

static void Elem__ctor_default(struct Elem *self) {
  if (IS_WATCH(self)) { __CPROVER_assert(self->life != LIVE, "C09 constructor runs on storage that still holds an element"); g_ctor_calls++; }
  uint32_t fresh; self->serial = fresh; self->life = LIVE;
}
static void Elem__ctor_copy(struct Elem *self, struct Elem *src) {
  if (IS_WATCH(self)) { __CPROVER_assert(self->life != LIVE, "C09 constructor runs on storage that still holds an element"); g_ctor_calls++; }
  if (IS_WATCH(src)) __CPROVER_assert(src->life == LIVE, "C09 copy reads storage that holds an element");
  self->serial = src->serial; self->life = LIVE;
}
static void Elem__ctor_move(struct Elem *self, struct Elem *src) {
  if (IS_WATCH(self)) { __CPROVER_assert(self->life != LIVE, "C09 constructor runs on storage that still holds an element"); g_ctor_calls++; }
  if (IS_WATCH(src)) __CPROVER_assert(src->life == LIVE, "C09 move reads storage that holds an element");
  self->serial = src->serial; self->life = LIVE; src->life = SHELL;
}
static struct Elem *Elem__assign_copy(struct Elem *self, struct Elem *src) {
  if (IS_WATCH(self)) { __CPROVER_assert(self->life != RAW, "C09 assignment onto storage that holds an object"); g_asgn_calls++; }
  if (IS_WATCH(src)) __CPROVER_assert(src->life == LIVE, "C09 copy reads storage that holds an element");
  self->serial = src->serial; self->life = LIVE;
  return self;
}
static struct Elem *Elem__assign_move(struct Elem *self, struct Elem *src) {
  if (IS_WATCH(self)) { __CPROVER_assert(self->life != RAW, "C09 assignment onto storage that holds an object"); g_asgn_calls++; }
  if (IS_WATCH(src)) __CPROVER_assert(src->life == LIVE, "C09 move reads storage that holds an element");
  self->serial = src->serial; self->life = LIVE; src->life = SHELL;
  return self;
}
static void Elem__dtor(struct Elem *self) {
  if (IS_WATCH(self)) { __CPROVER_assert(self->life != RAW, "C09 destructor runs on storage that holds an object"); g_dtor_calls++; }
  self->life = RAW;
}
static _Bool Elem__op_eq(struct Elem *self, struct Elem *o) { return self->serial == o->serial; }

/* ---- allocation wrappers (the lowered code calls malloc/realloc/free; the prelude maps them here) ---- */
static void *verif_malloc(size_t n) {
  void *p = malloc(n);
  __CPROVER_assume(p != 0);
  g_newobj = __CPROVER_POINTER_OBJECT(p);
  g_allocs++;
  if (g_watch_new && g_allocs == 1) g_wobj = g_newobj; else __CPROVER_assume(g_wobj != g_newobj);
  if (g_np < n / sizeof(struct Elem)) __CPROVER_assume(((struct Elem *)p)[g_np].life == RAW);
  return p;
}
static void verif_free(void *p) {
  if (p != 0) {
    g_frees++;
    if (__CPROVER_POINTER_OBJECT(p) == g_wobj && g_wp < __CPROVER_OBJECT_SIZE(p) / sizeof(struct Elem)) {
      __CPROVER_assert(((struct Elem *)p)[g_wp].life != LIVE || (g_reloc && g_dtor_calls == 0),
                       "C09 no live element is abandoned when a buffer is freed");
    }
    if (__CPROVER_POINTER_OBJECT(p) == g_wobj) g_freed_w = 1;
  }
  free(p);
}
#endif
