/* Models for the SubjectRouter proofs (assumed side; DESIGN.md 5 C06/C13). */
/* ---- std::map<std::string, Node>: sorted entry array ---- */
static void CMap__begin(struct CMap *m, struct CIt *r) { r->m = m; r->pos = 0; }
static void CMap__end(struct CMap *m, struct CIt *r) { r->m = m; r->pos = m->len; }
static _Bool CMap__empty(struct CMap *m) { return m->len == 0; }
static _Bool CIt_eq(struct CIt *a, struct CIt *b) { return a->pos == b->pos; }
static struct CIt *CIt__op_inc(struct CIt *i) { i->pos++; return i; }
#ifdef MAP_TRACKED
/* Map model for the functions that MODIFY child nodes (shrink).  An array of 200-byte nodes updated at symbolic indices
 * exhausts the solver, so the mapped objects are abstracted further: ONE entry is tracked - index g_tx, key keys[g_tx],
 * node object *g_trk, which persists and is never moved (std::map nodes are stable) - and every other entry is
 * unspecified: dereferencing an iterator at another index yields an arbitrary node (scratch object *g_scr, fresh at
 * every visit) that satisfies the facts every child satisfies.  The abstraction admits more behaviours than the real
 * map (untracked entries may change between two visits), so what is proved under it holds for the real map. */
static struct CEnt *CIt__op_star(struct CIt *i) {
  struct CMap *m = i->m; size_t p = i->pos;
  __CPROVER_assert(p < m->len, "map iterator dereferenced inside the map");
  i->cur.first.id = m->keys[p]; i->cur.first.g_rxm = nondet_bool();
  if (p == g_tx) { i->cur.kid = g_trk; return &i->cur; }          /* the facts about the tracked child are carried by the proof */
  __CPROVER_havoc_object(g_scr);
  i->cur.kid = g_scr;
  __CPROVER_assume(m->keys[p] == g_scr->m_name.id);             /* key = name of the child */
  __CPROVER_assume(KID_FACTS(m, g_scr));                         /* liveness facts at the visited child (C13) */
  return &i->cur;
}
#else
/* dereferencing position pos yields the entry together with the definitional facts about that child (ENT_FACTS) and
 * the step of the folds at pos (FOLD_STEP): instances, at the visited index, of facts that hold for every index */
static struct CEnt *CIt__op_star(struct CIt *i) {
  struct CMap *m = i->m; size_t p = i->pos;
  __CPROVER_assert(p < m->len, "map iterator dereferenced inside the map");
  i->cur.first.id = m->keys[p]; i->cur.first.g_rxm = nondet_bool(); i->cur.kid = &m->kids[p];
  /* the map invariant and the definitions of the ghost functions, at the visited child.  (Written with indexed accesses:
   * a pointer to a member inside an array element makes CBMC fall back to byte extraction from the whole array.) */
#define C_ m->kids[p].m_children
  __CPROVER_assume(m->keys[p] == m->kids[p].m_name.id);            /* key = name of the child (lookupNode inserts {name, Node(name)}) */
  __CPROVER_assume((long)C_.g_lvl == (long)m->g_lvl + 1);                      /* a child is one level deeper */
  __CPROVER_assume(!C_.g_whit || C_.g_win);                        /* WHIT(c) implies W in subtree(c) */
  __CPROVER_assume(!C_.g_isw || C_.g_win);
  __CPROVER_assume(!C_.g_win || (m->g_win && !m->g_isw && p == m->g_wchild));   /* only the child on the path holds W */
  __CPROVER_assume(C_.g_depth >= 1);
  /* one step of the folds */
  __CPROVER_assume(m->psum[p + 1] == m->psum[p] + C_.g_cnt);
  __CPROVER_assume(m->pmax[p + 1] == MAXZ(m->pmax[p], C_.g_depth) && m->pmax[p + 1] <= m->pmax[m->len]);
  __CPROVER_assume(BEQ(m->pany[p + 1], m->pany[p] || C_.g_ex) && (!m->pany[p + 1] || m->pany[m->len]));
#undef C_
  return &i->cur;
}
#endif
static struct CEnt *CIt__op_arrow(struct CIt *i) { return CIt__op_star(i); }
static void CMap__find(struct CMap *m, struct Str *key, struct CIt *r) {
  r->m = m;
  if (key->id == m->g_fkey) r->pos = m->g_fidx;
  else { size_t p = nondet_size(); __CPROVER_assume(p <= m->len && (p < m->len ==> m->keys[p] == key->id)); r->pos = p; }
}
/* ---- std::unique_ptr<Subject<>> ---- */
static void SPtr__ctor_default(struct SPtr *p) { p->p = 0; }
static struct Subj0 *SPtr__get(struct SPtr *p) { return p->p; }
static struct Subj0 *SPtr__op_arrow(struct SPtr *p) { __CPROVER_assert(p->p != 0, "unique_ptr dereferenced while holding an object"); return p->p; }
static _Bool X_op_eq__unique_ptr_tulz_Subject_std_default_delete_tulz_Subject_ref_void_ptr(struct SPtr *p, void *z) { return p->p == 0; }
/* ---- tulz::Subject<...>::notify: the external operation C06 counts (C05 says what it does with the observers) ---- */
static void subj_notified(struct SubjCore *c, int sig, int arg) {
  __CPROVER_assert(c->sig == sig, "C06 a subject is notified through the argument signature it was created with");
  g_total++;
  if (c->is_w) { g_w_notified++; g_w_arg = arg; }
}
void Subj0__notify(struct Subj0 *s) { subj_notified(&s->c, SIG_VOID, 0); }
void SubjI__notify(struct SubjI *s, int a) { subj_notified(&s->c, SIG_INT, a); }
void SubjR__notify(struct SubjR *s, int *a) { subj_notified(&s->c, SIG_INT_REF, *a); }
/* ---- the by-value class argument: copies and moves on the way down are visible ---- */
void Payload__ctor_copy(struct Payload *d, struct Payload *s) {
  __CPROVER_assert(s->state == PL_LIVE, "C06 an argument is copied while it still holds the value that was passed");
  d->val = s->val; d->state = PL_LIVE; }
void Payload__ctor_move(struct Payload *d, struct Payload *s) {
  __CPROVER_assert(s->state == PL_LIVE, "C06 an argument is moved while it still holds the value that was passed");
  d->val = s->val; d->state = PL_LIVE; s->state = PL_MOVED; }
void Payload__dtor(struct Payload *p) { __CPROVER_assert(p->state != PL_RAW, "C06 an argument object is destroyed once"); p->state = PL_RAW; }
void SubjP__notify(struct SubjP *s, struct Payload *a) {
  __CPROVER_assert(a->state == PL_LIVE, "C06 a subject receives the argument value that was passed, not a moved-from object");
  subj_notified(&s->c, SIG_PAYLOAD, a->val); }
_Bool Subj0__hasSubscriptions(struct Subj0 *s) { return s->c.has_subs; }
/* ---- std::any_of over the children with the closure of Node::exists ---- */
static _Bool X_any_of__CIt_CIt_closure_Node__exists_1(struct CIt b, struct CIt e, struct closure_Node__exists_1 pred) {
  struct CMap *m = b.m; size_t i = b.pos, end = e.pos; _Bool r = 0;
  __CPROVER_assert(i == 0 && end == m->len, "any_of over the whole map");
  while (i < end && !r)
    __CPROVER_assigns(i, r)
    __CPROVER_loop_invariant(i <= end && (r ==> m->pany[m->len]) && (!r ==> !m->pany[i]))
    __CPROVER_decreases(end - i)
  {
    struct CIt it; it.m = m; it.pos = i;
    r = closure_Node__exists_1__call(&pred, CIt__op_star(&it));
    i++;
  }
  return r;
}

#ifdef MAP_TRACKED
/* ---- std::erase_if(std::map&, pred) with the closure of Node::shrink (C13) ----
 * The standard's effect: the predicate is evaluated for every entry; exactly the entries for which it is false remain,
 * in their order, with their mapped objects untouched (map nodes are not moved).  Stated here at the tracked entry
 * (ghost index instead of a quantifier), old index g_tx: an arbitrary child, the child that leads to the watched node
 * W, the liveness witness, or (CASE_FIRST) a PROPHECY of the old index of the first entry that is kept: g_tx is an
 * unconstrained input of the harness, executions in which the prophecy is wrong are discarded, and every real
 * execution agrees with exactly one value of it.  The predicate is the real lowered closure. */
static size_t ERASE_IF_SHRINK(struct CMap *m, struct closure_Node__shrink_1 pred) {
  size_t n = m->len, ix = g_tx, nix = 0;
  _Bool in = ix < n, kept = 0;
  size_t key = 0;
  if (in) {
    key = m->keys[ix];
    struct CEnt e; e.first.id = key; e.first.g_rxm = nondet_bool(); e.kid = g_trk;
    kept = !closure_Node__shrink_1__call(&pred, &e);
  }
  size_t nl = nondet_size(); __CPROVER_assume(nl <= n);
  if (in && kept) { nix = nondet_size(); __CPROVER_assume(nix < nl && nix <= ix && nl - nix <= n - ix); }
  if (in && !kept) __CPROVER_assume(nl < n);
  if (g_case == CASE_FIRST && nl > 0) __CPROVER_assume(in && kept && nix == 0);
  m->len = nl;
  __CPROVER_havoc_object(m->keys);                 /* the entries move up; only the tracked one is specified */
  if (in && kept) m->keys[nix] = key;
  g_tx_kept = in && kept; g_tx_new = nix;
  g_tx = g_tx_kept ? nix : nl;                     /* the ghost indices follow their entries */
  size_t w = nondet_size(), l = nondet_size(); __CPROVER_assume(w <= nl && l <= nl);
  m->g_wchild = g_case == CASE_W ? g_tx : w;
  m->g_lchild = g_case == CASE_L ? g_tx : l;
  g_erase_ran = 1;
  return n - nl;
}
#endif

/* ---- construction / destruction of the map and the subject pointer (lookupNode, Node(name), ~Node) ---- */
static void CMap__ctor_default(struct CMap *m) { m->len = 0; m->g_clive = 0; m->g_live = 0; m->g_win = 0; m->g_isw = 0; m->g_whit = 0; m->g_cnt = 0; m->g_ex = 0; m->g_depth = 1; }
static void CMap__ctor_move(struct CMap *m, struct CMap *o) { *m = *o; o->len = 0; }
static void CMap__dtor(struct CMap *m) { }
static void SPtr__ctor_move(struct SPtr *p, struct SPtr *o) { p->p = o->p; o->p = 0; }
static void SPtr__dtor(struct SPtr *p) { __CPROVER_assert(p->p == 0, "MODEL-LIMIT destruction of a node that owns a subject is not modelled"); }
static void SPtr__reset(struct SPtr *p, struct Subj0 *s) { __CPROVER_assert(p->p == 0, "C06 a subject that exists (with its subscriptions) is never replaced"); p->p = s; }
#ifdef MAP_TRACKED
/* std::pair<const std::string, Node>(name, Node&&): the node is move-constructed into the pair (real lowered Node move
 * constructor), which lives in the scratch object until insert() takes it */
static void CEnt__ctor__Str_ref_Node_rref(struct CEnt *e, struct Str *name, struct Node *n) {
  Str__ctor_copy(&e->first, name);
  Node__ctor_move(g_scr, n);
  e->kid = g_scr;
}
/* std::map::insert(value): if the key is present nothing changes and the iterator points at the existing entry; otherwise
 * the entry is inserted at its sorted position (all other entries keep their node objects).  The tracked entry is the one
 * with this key: g_tx is its index (FIND_FACTS: g_fidx is the index of the child named g_fkey, or len when absent). */
static void CMap__insert(struct CMap *m, struct CEnt *val, struct CIns *r) {
  __CPROVER_assert(val->first.id == m->g_fkey, "MODEL-LIMIT insert is modelled for the key the harness tracks");
  r->first.m = m;
  if (m->g_fidx < m->len) { r->first.pos = m->g_fidx; r->second = 0; g_inserted = 0; return; }
  size_t p = nondet_size(); __CPROVER_assume(p <= m->len);
  m->len = m->len + 1;
  __CPROVER_havoc_object(m->keys);
  m->keys[p] = val->first.id;
  Node__ctor_move(g_trk, val->kid);                 /* the mapped node is move-constructed from the value */
  g_trk->m_children.g_lvl = m->g_lvl + 1;           /* ghost: a child is one level deeper */
  g_tx = p; m->g_fidx = p;
  r->first.pos = p; r->second = 1; g_inserted = 1;
}
#endif
/* ---- Subject<...> as seen from Node::subscribe: creation fixes the signature, subscribe must use it ---- */
void Subj0__ctor_default(struct Subj0 *s) { s->c.sig = SIG_VOID; s->c.has_subs = 0; s->c.is_w = 0; g_subj_created++; }
void SubjI__ctor_default(struct SubjI *s) { s->c.sig = SIG_INT; s->c.has_subs = 0; s->c.is_w = 0; g_subj_created++; }
static void subj_subscribed(struct SubjCore *c, int sig) {
  __CPROVER_assert(c->sig == sig, "C06 an observer is subscribed to a subject through the argument signature the subject was created with");
  c->has_subs = 1; g_sub_calls++; g_sub_on = c;
}
void Subj0__subscribe(struct Subj0 *s, struct OAuto0 *o, struct Subn0 *r) { subj_subscribed(&s->c, SIG_VOID); r->m_subject = s; r->m_observer = o->m_ptr.p; r->m_id = 0; }
void SubjI__subscribe(struct SubjI *s, struct OAutoI *o, struct SubnI *r) { subj_subscribed(&s->c, SIG_INT); r->m_subject = s; r->m_observer = o->m_ptr.p; r->m_id = 0; }
static void OPtr0__ctor_move(struct OPtr0 *p, struct OPtr0 *o) { p->p = o->p; o->p = 0; }
static void OPtrI__ctor_move(struct OPtrI *p, struct OPtrI *o) { p->p = o->p; o->p = 0; }
static void OPtr0__dtor(struct OPtr0 *p) { }
static void OPtrI__dtor(struct OPtrI *p) { }
static void OAuto0__ctor__std_unique_ptr_Observer(struct OAuto0 *a, struct OPtr0 *o) { a->m_ptr.p = o->p; o->p = 0; }
static void OAutoI__ctor__std_unique_ptr_Observer_int(struct OAutoI *a, struct OPtrI *o) { a->m_ptr.p = o->p; o->p = 0; }
static void OAuto0__dtor(struct OAuto0 *a) { }
static void OAutoI__dtor(struct OAutoI *a) { }
