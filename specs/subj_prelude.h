/* Prelude for the lowered Subject<int> translation unit (assumed side): std:: containers as array-backed sequences,
 * std::function as an opaque callable, one watched subscription as ghost (DESIGN.md 4.2). */
#ifndef VERIF_SUBJ_PRELUDE_H
#define VERIF_SUBJ_PRELUDE_H
#include <stddef.h>
#include <stdint.h>
#include <stdlib.h>
_Bool nondet_bool(void);
struct Obsv; struct ODet; struct CDet; struct Subj;
struct OPtr { struct Obsv *p; };                       /* std::unique_ptr<Observer<int>> */
struct Fn { int target; };                             /* std::function<void(int)> */
/* std::forward_list: items[0] is the OLDEST entry, items[len-1] the front; iterator position counts from the front */
struct OList { struct ODet *items; size_t len; };
struct OIt { struct OList *l; size_t pos; };
struct CList { struct CDet *items; size_t len; };
struct CIt { struct CList *l; size_t pos; };
struct IdSet { int opaque; };                          /* std::set<SubscriptionId>: membership through the ghost below */
struct IdIns { char d; };
struct OAuto { struct OPtr m_ptr; };                   /* ObserverAutoPtr: owns the observer until operator* hands it over */
#ifndef SCAP_MAX
#define SCAP_MAX ((size_t)1 << 20)
#endif
size_t g_scap;                                         /* capacity of the sequence models */
/* ---- the watched subscription ---- */
unsigned int g_wid;          /* its id */
_Bool g_w_in;                /* it is currently subscribed (id active and its entry in the list) */
size_t g_oi;                 /* array index of its entry while subscribed */
struct Obsv *g_wobs;         /* its observer object */
_Bool g_w_alive;             /* that object has not been destroyed */
size_t g_w_deletes;          /* destructions of that object */
size_t g_o2;                 /* an arbitrary other array index (instances of "ids are pairwise distinct / increasing") */
struct Subj *g_subj;         /* the subject under check */
/* callbacks */
size_t g_cb_calls; int g_cb_arg; _Bool g_cb_in_at_call;
_Bool g_reentrant;           /* callbacks may change the subject (C10) or not (C05) */
_Bool g_thrown;              /* an exception was thrown (lowered as ghost flag + return) */
size_t g_turn_seen;
size_t g_c2;                 /* arbitrary index into the snapshot list */
_Bool g_in_snapshot; size_t g_turn_pos; _Bool g_mute0, g_valid0;   /* facts about the watched subscription when the round started */
size_t g_cur_pos, g_cb_pos;      /* position of the delivery loop; position at which the watched callback ran */
size_t g_oi0, g_len0; _Bool g_in0; unsigned int g_hid; struct Subj *g_hsubj;   /* pre-state constants bound in requires */          /* how often the delivery loop reached the watched entry */
static void X_throw(const char *what) { g_thrown = 1; }
static void X_swap__unsigned_int_ref_unsigned_int_ref(unsigned int *a, unsigned int *b) { unsigned int t = *a; *a = *b; *b = t; }
#endif
