/* Monitor reasoning for rwp::Resource (assumed side; DESIGN.md 4.3, 5 C01-C03, C12).
 *
 * Shared state = the five fields of Resource.  Ghost: holders by kind (g_hR, g_hW: threads between the mutex
 * release that ends lock() and the mutex acquisition of unlock()), g_asleep (tickets below the bound whose owner
 * has not yet left wait(), other than the watched one), one watched ticket (g_tst, g_tid, g_ttype, g_tk).
 * mutex.lock  = havoc shared state, assume the invariant (at finitely many instances);
 * mutex.unlock / release inside wait = assert the invariant (at arbitrary ghost instances) and the properties;
 * wait(lock, pred) = if (!pred()) { release; havoc; assume invariant && pred() }  with pred = the lowered lambda.
 */
typedef tulz_rwp_Resource_OpType OpType;
typedef long Id;
#ifndef QMAXMAX
#define QMAXMAX ((size_t)1 << 20)
#endif
size_t g_qcap;
#define QMAX g_qcap

/* ---- ghost ---- */
size_t g_hR, g_hW, g_asleep;
enum { T_NONE, T_WAIT, T_ADM };
int g_tst; Id g_tid; OpType g_ttype; size_t g_tk; _Bool g_me;      /* watched ticket; g_me: the acting thread owns it */
#define WADM ((size_t)(g_tst == T_ADM))
OpType g_myType; _Bool g_waited; Id g_myId; int g_mode;            /* g_mode 0 = lock(), 1 = unlock() */
struct Res *g_self; Id g_bound_at_lock; int g_tst_at_lock; _Bool g_popped_watched;
size_t g_j, g_a, g_b;                                              /* arbitrary queue positions */
_Bool g_notify_pending;                                            /* the bound moved and nobody was notified yet */
_Bool g_fast_path; OpType g_op_at_lock; size_t g_qlen_at_lock; size_t g_hW_at_lock;
size_t g_waiters_at_release; _Bool g_busy_at_lock;

/* ---- std::deque model ---- */
static void Deq__ctor_default(struct Deq *q) { q->head = 0; q->len = 0; }
static _Bool Deq__empty(struct Deq *q) { return q->len == 0; }
static void Deq__push_back(struct Deq *q, struct ResOp *x) { __CPROVER_assume(q->head + q->len < QMAX); q->items[q->head + q->len] = *x; q->len++; }
static struct ResOp *Deq__back(struct Deq *q) { __CPROVER_assert(q->len > 0, "deque::back on a non-empty deque"); return &q->items[q->head + q->len - 1]; }
static struct ResOp *Deq__front(struct Deq *q) { __CPROVER_assert(q->len > 0, "deque::front on a non-empty deque"); return &q->items[q->head]; }
static void Deq__pop_front(struct Deq *q) {
  __CPROVER_assert(q->len > 0, "deque::pop_front on a non-empty deque");
  q->head++; q->len--;
  if (g_tst == T_WAIT) { if (g_tk == 0) g_popped_watched = 1; else g_tk--; }
}

/* ---- the monitor invariant ---- */
#define ITEM(s, k) ((s)->m_queue.items[(s)->m_queue.head + (k)])
static _Bool INV(const struct Res *s) {
  size_t len = s->m_queue.len;
  return s->m_queue.head <= QMAX && len <= QMAX - s->m_queue.head
   && s->m_activeCount == g_hR + g_hW + g_asleep + WADM
   && (s->m_activeOp == OP_NONE || s->m_activeOp == OP_READ || s->m_activeOp == OP_WRITE)
   && ((s->m_activeOp == OP_NONE) == (s->m_activeCount == 0))
   && (s->m_activeOp == OP_NONE ==> (len == 0 && s->m_idCounter == 0 && s->m_upperUnlockBound == 0))
   && (s->m_activeOp == OP_WRITE ==> (s->m_activeCount == 1 && g_hR == 0))
   && (s->m_activeOp == OP_READ ==> g_hW == 0)
   && 0 <= s->m_upperUnlockBound && s->m_upperUnlockBound <= s->m_idCounter
   && ((len == 0) == (s->m_upperUnlockBound == s->m_idCounter))
   && (len > 0 ==> (ITEM(s, len - 1).upperBound == s->m_idCounter
                 && ITEM(s, 0).upperBound > s->m_upperUnlockBound
                 && (ITEM(s, 0).type == OP_READ || ITEM(s, 0).type == OP_WRITE)
                 && (ITEM(s, 0).type == OP_WRITE ==> ITEM(s, 0).upperBound == s->m_upperUnlockBound + 1)
                 && (ITEM(s, 0).type == OP_READ ==> s->m_activeOp == OP_WRITE)
                 && s->m_activeCount > 0));
}
static _Bool PAIR(const struct Res *s, size_t j) {
  return (j + 1 < s->m_queue.len) ==> (
      ITEM(s, j + 1).upperBound > ITEM(s, j).upperBound
   && (ITEM(s, j + 1).type == OP_READ || ITEM(s, j + 1).type == OP_WRITE)
   && (ITEM(s, j + 1).type == OP_WRITE ==> ITEM(s, j + 1).upperBound == ITEM(s, j).upperBound + 1)
   && !(ITEM(s, j).type == OP_READ && ITEM(s, j + 1).type == OP_READ));
}
static _Bool UB(const struct Res *s, size_t j) {
  return (j < s->m_queue.len) ==> (ITEM(s, j).upperBound <= s->m_idCounter && (j + 1 < s->m_queue.len ==> ITEM(s, j).upperBound < s->m_idCounter));
}
static _Bool MONO(const struct Res *s, size_t a, size_t b) {
  return (a < b && b < s->m_queue.len) ==> ITEM(s, a).upperBound < ITEM(s, b).upperBound;
}
/* per-ticket invariant for the watched ticket */
static _Bool JT(const struct Res *s) {
  return (g_tst == T_NONE || g_tst == T_WAIT || g_tst == T_ADM)
   && (g_tst == T_WAIT ==> (s->m_upperUnlockBound <= g_tid && g_tid < s->m_idCounter
        && g_tk < s->m_queue.len && ITEM(s, g_tk).type == g_ttype && g_tid < ITEM(s, g_tk).upperBound
        && (g_tk == 0 ? s->m_upperUnlockBound <= g_tid : ITEM(s, g_tk - 1).upperBound <= g_tid)
        && (g_ttype == OP_READ || g_ttype == OP_WRITE)))
   && (g_tst == T_ADM ==> (g_tid < s->m_upperUnlockBound && s->m_activeOp == g_ttype));
}
static _Bool BOUNDS(const struct Res *s) {
  return g_hR < ((size_t)1 << 40) && g_hW < ((size_t)1 << 40) && g_asleep < ((size_t)1 << 40) && s->m_idCounter < ((Id)1 << 62)
      && g_j < QMAXMAX && g_a < QMAXMAX && g_b < QMAXMAX;
}
static void havoc_shared(struct Res *s) {
  struct Res n; size_t a, b, c;
  s->m_queue.items = malloc(QMAX * sizeof(struct ResOp));     /* fresh object: nondeterministic contents */
  __CPROVER_assume(s->m_queue.items != 0);
  s->m_queue.head = n.m_queue.head; s->m_queue.len = n.m_queue.len;
  s->m_activeOp = n.m_activeOp; s->m_activeCount = n.m_activeCount; s->m_idCounter = n.m_idCounter; s->m_upperUnlockBound = n.m_upperUnlockBound;
  g_hR = a; g_hW = b; g_asleep = c;
  { int st; Id tid; OpType tt; size_t tk; g_tst = st; g_tid = tid; g_ttype = tt; g_tk = tk; }
}
/* the invariant instantiated at the finitely many positions one atomic section needs (each is an instance of the
 * universally quantified invariant, so assuming them is sound) */
static _Bool INV_INSTANCES(const struct Res *s) {
  return BOUNDS(s) && INV(s) && PAIR(s, 0) && PAIR(s, g_j) && PAIR(s, g_j + 1) && UB(s, 0) && UB(s, 1) && UB(s, g_j) && UB(s, g_j + 1)
      && UB(s, g_a) && UB(s, g_b) && MONO(s, g_a, g_b) && MONO(s, g_a + 1, g_b + 1)
      && (g_tst == T_WAIT ==> (MONO(s, 0, g_tk) && (g_tk > 0 ==> MONO(s, 0, g_tk - 1))))
      && JT(s)
      && (g_tst == T_WAIT ==> (PAIR(s, g_tk) && UB(s, g_tk) && (g_tk > 0 ==> (PAIR(s, g_tk - 1) && UB(s, g_tk - 1)))))
      && (s->m_queue.len >= 2 ==> PAIR(s, s->m_queue.len - 2));
}
static void ASSERT_INV(const struct Res *s, _Bool at_wait) {
  __CPROVER_assert(INV(s), "C01/C02 monitor invariant holds when the mutex is released");
  __CPROVER_assert(PAIR(s, g_j), "C03 queue entries alternate correctly (pair invariant) when the mutex is released");
  __CPROVER_assert(UB(s, g_j), "C03 queue entry bounds invariant when the mutex is released");
  __CPROVER_assert(JT(s), "C03 per-ticket invariant when the mutex is released");
  __CPROVER_assert(MONO(s, g_a, g_b), "C03 queue bounds are strictly increasing when the mutex is released");
  __CPROVER_assert(!(g_hW >= 1 && (g_hR >= 1 || g_hW >= 2)), "C01 a writer never shares the lock");
}

/* ---- synchronisation primitives ---- */
static void Mutex__ctor_default(struct Mutex *m) { m->d = 0; }
static void CondVar__ctor_default(struct CondVar *c) { c->d = 0; }
static void Mutex__lock(struct Mutex *m) {
  struct Res *s = g_self;
  __CPROVER_assert(!g_mheld, "C15 the mutex is not locked twice by one thread"); g_mheld = 1;
  havoc_shared(s);
  __CPROVER_assume(INV_INSTANCES(s));
  g_bound_at_lock = s->m_upperUnlockBound; g_popped_watched = 0; g_tst_at_lock = g_tst;
  g_op_at_lock = s->m_activeOp; g_qlen_at_lock = s->m_queue.len; g_hW_at_lock = g_hW; g_notify_pending = 0;
  g_busy_at_lock = (g_hR + g_hW + g_asleep + WADM > 0);
  if (g_mode == 0 && g_me) __CPROVER_assume(g_tst == T_NONE);     /* the owner has not issued its ticket yet */
  if (g_mode == 1) {      /* caller protocol: unlock(t) is called by a holder of kind t; it stops being one now */
    __CPROVER_assume(g_myType == OP_READ ? g_hR >= 1 : g_hW >= 1);
    if (g_myType == OP_READ) g_hR--; else g_hW--;
  }
}
static void Mutex__unlock(struct Mutex *m) {
  struct Res *s = g_self;
  __CPROVER_assert(g_mheld, "C15 the mutex is unlocked only when held"); g_mheld = 0;
  if (g_mode == 0) {      /* lock() returning: the caller becomes a holder at this release */
    if (g_waited) {
      if (g_me) { __CPROVER_assert(g_tst == T_ADM, "C03 the owner of a ticket returns only when it is admitted"); g_tst = T_NONE; }
      else { __CPROVER_assert(g_asleep >= 1, "C01 an admitted waiter is accounted for"); g_asleep--; }
    }
    /* C03 no barging: a request that did not wait found the queue empty, i.e. (by the invariant) no un-admitted ticket */
    __CPROVER_assert(g_waited || g_qlen_at_lock == 0, "C03 a request is granted without queueing only if nobody is waiting");
    if (g_myType == OP_READ) g_hR++; else g_hW++;
  } else {
    /* tickets in [old bound, new bound) have just been admitted */
    if (s->m_upperUnlockBound > g_bound_at_lock) {
      size_t n = (size_t)(s->m_upperUnlockBound - g_bound_at_lock);
      if (g_tst == T_WAIT && g_tid < s->m_upperUnlockBound) { g_tst = T_ADM; g_asleep += n - 1; }
      else g_asleep += n;
      g_notify_pending = 1;
    }
    __CPROVER_assert(s->m_upperUnlockBound >= g_bound_at_lock ||
       (s->m_upperUnlockBound == 0 && s->m_idCounter == 0 && g_asleep == 0 && g_tst == T_NONE && s->m_queue.len == 0),
       "C02 the admission bound is monotone; it is reset only when no ticket is outstanding");
    __CPROVER_assert(g_popped_watched ==> g_tst == T_ADM, "C03 the queue entry covering a ticket is removed only by admitting it");
    __CPROVER_assert((g_hR + g_hW + g_asleep + WADM == 0) ==>
       (s->m_activeOp == OP_NONE && s->m_activeCount == 0 && s->m_idCounter == 0 && s->m_upperUnlockBound == 0 && s->m_queue.len == 0),
       "C02 once all locks are released the resource is back in its idle state");
  }
  ASSERT_INV(s, 0);
  /* threads that may be blocked on the condition variable right now: un-admitted tickets and admitted sleepers */
  g_waiters_at_release = (size_t)(s->m_idCounter - s->m_upperUnlockBound) + g_asleep + WADM;
  __CPROVER_assert(g_tst == T_NONE ==> (g_tst_at_lock == T_NONE || (g_mode == 0 && g_me)), "C03 only its owner retires a ticket");
}
static void ULock__ctor__Mutex_ref(struct ULock *l, struct Mutex *m) { l->m = m; l->owns = 1; Mutex__lock(m); }
static void ULock__dtor(struct ULock *l) { if (l->owns) Mutex__unlock(l->m); }

static void CondVar__wait(struct CondVar *cv, struct ULock *l, struct closure_Res__lock_1 pred) {
  struct Res *s = g_self;
  Id id = pred.cap_id;
  __CPROVER_assert(l->owns, "wait is called with the mutex held");
  if (closure_Res__lock_1__call(&pred)) {      /* while (!pred()) wait(lock): predicate already true */
    __CPROVER_assert(0, "C03 a request that queued itself cannot already be admitted in the same critical section");
    return;
  }
  __CPROVER_assert(g_busy_at_lock, "C02 an idle resource grants the next request without waiting");
  /* C12: a reader parks only if a writer is active, or the queue was non-empty (and then a writer waits) */
  __CPROVER_assert(g_myType == OP_READ ==> (g_op_at_lock == OP_WRITE || g_qlen_at_lock > 0), "C12 a reader waits only when a writer is active or waiting");
  if (g_me) { g_tst = T_WAIT; g_tid = id; g_ttype = g_myType; g_tk = s->m_queue.len - 1; }
  ASSERT_INV(s, 1);
  __CPROVER_assert(s->m_upperUnlockBound <= id && id < s->m_idCounter, "C03 the waiting ticket is registered between the bound and the counter");
  /* mutex released; other threads run arbitrary atomic sections; mutex re-acquired with the predicate true */
  havoc_shared(s);
  __CPROVER_assume(INV_INSTANCES(s));
  __CPROVER_assume(closure_Res__lock_1__call(&pred));
  if (g_me) {
    /* owner knowledge: nobody else retires or re-issues my ticket */
    __CPROVER_assume(g_tst != T_NONE && g_tid == id && g_ttype == g_myType);
    __CPROVER_assert(g_tst == T_ADM && s->m_activeOp == g_myType, "C03 an admitted ticket finds its own kind active (derived, not assumed)");
  } else {
    /* instance of the per-ticket invariant for the acting thread's own (unwatched) ticket */
    __CPROVER_assume(g_asleep >= 1 && s->m_activeOp == g_myType);
    __CPROVER_assume(!(g_tst != T_NONE && g_tid == id));
  }
  g_bound_at_lock = s->m_upperUnlockBound; g_tst_at_lock = g_tst; g_popped_watched = 0;
  g_waited = 1; g_myId = id;
}
static void CondVar__notify_all(struct CondVar *cv) { g_notify_pending = 0; }
/* all waiters share one condition variable and are told apart only by their predicate: notify_one reaches the admitted
 * thread for certain only if at most one thread can be blocked on it */
static void CondVar__notify_one(struct CondVar *cv) { if (g_waiters_at_release <= 1) g_notify_pending = 0; }
