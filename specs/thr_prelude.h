/* Prelude for the lowered tulz::Thread translation unit (assumed side): std::thread as a contract. */
#ifndef VERIF_THR_PRELUDE_H
#define VERIF_THR_PRELUDE_H
#include <stddef.h>
#include <stdint.h>
#include <stdlib.h>
#include "atomic_bool.h"
/* std::thread(F): stores a decayed copy of the callable object and invokes it exactly once on a new thread at an
 * arbitrary later time (here: immediately = "early", or when the harness says so = "late"); join() returns only after
 * that invocation has returned. */
struct StdThread { int id; };
enum { K_NONE, K_FP, K_BIG, K_RUNNABLE };
int g_kind; _Bool g_ran; _Bool g_early; int g_next_thread_id; int g_joined_id;
size_t g_calls; int *g_call_arg; _Bool g_finished_at_call; _Bool g_payload_ok;
size_t g_run_calls, g_delete_calls; _Bool g_deleted_before_run, g_finished_at_run;
long g_payload0, g_payload7;
#endif
