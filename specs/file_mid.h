#ifndef VERIF_FILE_MID_H
#define VERIF_FILE_MID_H
#define EOF_ (-1)
static struct FILE *X_fopen__char_ptr_restrict_char_ptr_restrict(const char *path, const char *mode);
static int X_fclose__FILE_ptr(struct FILE *f);
static int X_fflush__FILE_ptr(struct FILE *f);
static int X_fseek__FILE_ptr_long_int(struct FILE *f, long off, int whence);
static long X_ftell__FILE_ptr(struct FILE *f);
static int X_fgetc__FILE_ptr(struct FILE *f);
static int X_feof__FILE_ptr(struct FILE *f);
static size_t X_fread__void_ptr_restrict_size_t_size_t_FILE_ptr_restrict(void *p, size_t size, size_t nmemb, struct FILE *f);
static size_t X_fwrite__void_ptr_restrict_size_t_size_t_FILE_ptr_restrict(void *p, size_t size, size_t nmemb, struct FILE *f);
static void *X_malloc__size_t(size_t n);
static void X_free__void_ptr(void *p);
static void X_swap__unsigned_long_ref_unsigned_long_ref(unsigned long *a, unsigned long *b);
static void X_swap__unsigned_char_ptr_ref_unsigned_char_ptr_ref(unsigned char **a, unsigned char **b);
static struct ostream *X_operator__basic_ostream_char_std_char_traits_char_ref_char_ptr(struct ostream *o, const char *s);
static const char *Str__c_str(struct Str *s);
static size_t Str__length(struct Str *s);
static void Str__ctor__char_ptr_std_basic_string_char_size_type_std_allocator_char_ref(struct Str *d, char *p, size_t n);
static struct Str *Path__toString(struct Path *p);
static _Bool Path__exists(struct Path *p);
static _Bool Path__isDirectory(struct Path *p);
static void Path__ctor__Str_ref(struct Path *p, struct Str *s);
static void Path__dtor(struct Path *p);
/* a stream the wrapper may use */
#define STREAM_OK(f) ((f) != 0 && (f)->open && (f)->pos <= FLEN_MAX && g_disk_len <= FLEN_MAX && g_disk_len <= g_disk_cap && g_disk_cap <= 2 * FLEN_MAX)
#endif
