/* Prelude for the lowered Observable<int> translation unit (assumed side). */
#ifndef VERIF_OBS_PRELUDE_H
#define VERIF_OBS_PRELUDE_H
#include <stddef.h>
#include <stdint.h>
#include <limits.h>
struct Subj { int opaque; };                 /* Subject<int&>: only its notify() contract matters here */
struct std_equal_to_int { char empty; };
/* ghost record of what the Subject was told */
size_t g_notify_count; int *g_notify_arg; int g_notify_val; struct Subj *g_notify_on;
size_t g_eq_calls; int g_old;
/* specification equality: any verdict; operands and verdict are recorded */
struct EqStub { char empty; };
int g_eq_a, g_eq_b; _Bool g_eq_verdict;
_Bool nondet_bool(void);
static _Bool EqStub__op_call(struct EqStub *self, int *a, int *b) { g_eq_calls++; g_eq_a = *a; g_eq_b = *b; g_eq_verdict = nondet_bool(); return g_eq_verdict; }
/* std::equal_to<int>::operator() : standard definition */
static _Bool std_equal_to_int__op_call(struct std_equal_to_int *self, int *a, int *b) { g_eq_calls++; return *a == *b; }
#endif
