/* Models for the Subject proofs (assumed side; DESIGN.md 5 C05/C10).
 *
 * Representation invariant of a Subject (instantiated at the watched entry g_oi and at one arbitrary other index g_o2):
 *   ids in the list are pairwise distinct and increase with the array index (newest at the front), all below the
 *   subscription counter; an id is active iff its entry is in the list; every listed observer object is alive and is
 *   listed once.
 */
/* ---- std::set<SubscriptionId> through the watched id ---- */
static _Bool IdSet__contains(struct IdSet *s, unsigned int *id) { if (*id == g_wid) return g_w_in; return nondet_bool(); }
static void IdSet__emplace(struct IdSet *s, unsigned int *id, struct IdIns *r) { if (*id == g_wid) { __CPROVER_assert(!g_w_in, "C05 a new subscription gets an id that is not in use"); g_w_in = 1; } }
static void IdSet__erase(struct IdSet *s, unsigned int *id) { if (*id == g_wid) g_w_in = 0; }
/* the set holds exactly the ids of the listed entries (the abstraction keeps both in the same sequence model) */
static size_t IdSet__size(struct IdSet *s) { return ((struct Subj *)((char *)s - __builtin_offsetof(struct Subj, m_activeSubscriptions)))->m_observers.len; }
static _Bool IdSet__empty(struct IdSet *s) { return IdSet__size(s) == 0; }
/* ---- std::unique_ptr<Observer> : destroying it destroys the observer (virtual destructor) ---- */
static void OPtr__dtor(struct OPtr *p) {
  if (p->p != 0 && p->p == g_wobs) { __CPROVER_assert(g_w_alive, "C05/C10 an observer object is destroyed at most once"); g_w_alive = 0; g_w_deletes++; }
  p->p = 0;
}
/* ---- std::forward_list<ObserverDetails> ---- */
static struct ODet *OList__emplace_front(struct OList *l, struct OPtr *p, unsigned int *id) {
  __CPROVER_assume(l->len < g_scap);
  l->items[l->len].observer.p = p->p; p->p = 0;
  l->items[l->len].subscriptionId = *id;
  if (*id == g_wid) { g_oi = l->len; g_wobs = l->items[l->len].observer.p; g_w_alive = 1; }
  l->len++;
  return &l->items[l->len - 1];
}
/* remove_if(pred): ids are pairwise distinct, so at most one entry matches.  The entries behind it move down by one;
 * only the watched entry is tracked exactly, every other moved entry is left nondeterministic. */
static void OList__remove_if(struct OList *l, struct closure_Subj__unsubscribeById_1 pred) {
  size_t j; 
  if (j < l->len && closure_Subj__unsubscribeById_1__call(&pred, &l->items[j])) {
    /* instance of the representation invariant at j: only the watched entry carries the watched id / observer */
    if (!(g_w_in && j == g_oi)) __CPROVER_assume(l->items[j].subscriptionId != g_wid && l->items[j].observer.p != g_wobs);
    _Bool is_w = (g_w_in && g_oi == j);
    struct ODet keep; _Bool have = (!is_w && g_w_in);
    if (have) keep = l->items[g_oi];
    OPtr__dtor(&l->items[j].observer);
    if (j + 1 < l->len) __CPROVER_havoc_slice(&l->items[j], (l->len - 1 - j) * sizeof(struct ODet));
    l->len--;
    if (have) { if (g_oi > j) g_oi--; l->items[g_oi] = keep; }
    /* the moved entries are other subscriptions: instance of distinctness at g_o2 */
    if (g_o2 < l->len && !(have && g_o2 == g_oi))
      __CPROVER_assume(l->items[g_o2].subscriptionId != g_wid && l->items[g_o2].observer.p != g_wobs && l->items[g_o2].observer.p != 0
                       && l->items[g_o2].subscriptionId < SUBJ_OF(l)->m_subscriptionCounter
                       && (have ==> ((g_o2 < g_oi) == (l->items[g_o2].subscriptionId < g_wid))));
  } else {
    /* no entry matches: instances at the watched entry and at g_o2 */
    if (g_oi < l->len) __CPROVER_assume(!closure_Subj__unsubscribeById_1__call(&pred, &l->items[g_oi]));
    if (g_o2 < l->len) __CPROVER_assume(!closure_Subj__unsubscribeById_1__call(&pred, &l->items[g_o2]));
  }
#ifdef DBG
  { size_t dbg_o2 = g_o2, dbg_oi = g_oi, dbg_len = l->len; _Bool dbg_in = g_w_in; unsigned dbg_wid = g_wid, dbg_id2 = g_o2 < l->len ? l->items[g_o2].subscriptionId : 0, dbg_cnt = SUBJ_OF(l)->m_subscriptionCounter; struct Obsv *dbg_p2 = g_o2 < l->len ? l->items[g_o2].observer.p : 0, *dbg_w = g_wobs; }
  __CPROVER_assert(SUBJ_INV_O(SUBJ_OF(l)) || (g_w_in && pred.cap_subscriptionId == g_wid), "dbg INV_O after remove_if");
#endif
}
static struct ODet *OIt__op_star(struct OIt *i) { __CPROVER_assert(i->pos < i->l->len, "forward_list iterator dereferenced inside the list"); return &i->l->items[i->l->len - 1 - i->pos]; }
/* ---- the snapshot list of notify() ---- */
static void CList__ctor_default(struct CList *l) { l->items = malloc(g_scap * sizeof(struct CDet)); __CPROVER_assume(l->items != 0); l->len = 0; }
static struct CDet *CList__emplace_front(struct CList *l, struct Obsv **o, unsigned int *id) {
  __CPROVER_assume(l->len < g_scap);
  l->items[l->len].observer = *o; l->items[l->len].subscriptionId = *id; l->len++;
  return &l->items[l->len - 1];
}
static struct CDet *CIt__op_star(struct CIt *i) {
  __CPROVER_assert(i->pos < i->l->len, "forward_list iterator dereferenced inside the list");
  g_cur_pos = i->pos;
  if (g_in_snapshot && i->pos == g_turn_pos) g_turn_seen++;      /* the round reaches the watched subscription's snapshot entry */
  else __CPROVER_assume(SNAP_OTHER(i->l->items, i->l->len - 1 - i->pos));   /* instance of loop 0's invariant, see SNAP_OTHER */
  return &i->l->items[i->l->len - 1 - i->pos];
}
/* ---- callbacks and virtual dispatch ---- */
void callback_effects(void);
static void Fn__op_call(struct Fn *f, int args) {
  if (g_wobs != 0 && f == &g_wobs->m_func) { g_cb_calls++; g_cb_arg = args; g_cb_in_at_call = g_w_in; g_cb_pos = g_cur_pos; }
  if (g_reentrant) callback_effects();
}
void Obsv__op_call__virtual(struct Obsv *o, int args) {
  if (o == g_wobs && g_wobs != 0) { __CPROVER_assert(g_w_alive, "C10 no observer is invoked after it was destroyed"); Obsv__op_call(o, args); }
  else if (g_reentrant) callback_effects();        /* some other observer's callback (or none) */
}
_Bool Obsv__isValid__virtual(struct Obsv *o) {
  if (o == g_wobs && g_wobs != 0) { __CPROVER_assert(g_w_alive, "C10 no observer object is queried after it was destroyed"); return EObs__isValid((struct EObs *)o); }
  return nondet_bool();
}
