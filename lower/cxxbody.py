"""Function-body lowering for cxxlower (expressions and statements)."""
import re
from cxxtypes import T, LowerError, sanitize, LITSUF
from cxxlower import kids, qt, PASS_THROUGH, IDENTITY_FUNCS, OPNAMES

JUMP = ('return', 'break', 'continue')


def strip_casts(n, kinds=('ImplicitCastExpr', 'ParenExpr')):
    while n.get('kind') in kinds and kids(n):
        n = kids(n)[0]
    return n


def is_glvalue(n):
    return n.get('valueCategory') in ('lvalue', 'xvalue')


class Scope:
    def __init__(self, kind):
        self.kind = kind      # 'func' | 'block' | 'loop'
        self.dtors = []       # list of C statements (strings) run in reverse order


class FnCtx:
    def __init__(self, lw, func, captures=None, this_expr='self'):
        self.lw = lw
        self.f = func
        self.captures = captures or {}    # var id -> C lvalue expression
        self.this_expr = this_expr
        self.tmpn = 0
        self.pre = None
        self.post = None
        self.scopes = []
        self.byptr_params = set()
        self.ref_locals = set()
        self.loop_ord = 0
        self.loop_contracts = {}
        self.ret_t = None
        self.calls = set()
        self.local_names = set()
        self.used_loops = set()

    # ---------------------------------------------------------------- utilities
    def err(self, n, msg):
        loc = n.get('range', {}).get('begin', {})
        raise LowerError('%s: %s (kind %s, line %s) in %s' % (self.f.qual, msg, n.get('kind'), loc.get('line'), self.f.cname))

    def newtmp(self):
        self.tmpn += 1
        return '__t%d' % self.tmpn

    def addr_of(self, lv):
        lv = lv.strip()
        m = re.match(r'^\(\*(.*)\)$', lv)
        if m and self._balanced(m.group(1)):
            return m.group(1)
        return '&(%s)' % lv

    def deref(self, p):
        p = p.strip()
        if p.startswith('&(') and p.endswith(')') and self._balanced(p[2:-1]):
            return p[2:-1]
        return '(*%s)' % p

    @staticmethod
    def _balanced(s):
        d = 0
        for ch in s:
            if ch == '(':
                d += 1
            elif ch == ')':
                d -= 1
                if d < 0:
                    return False
        return d == 0

    def full(self, fn):
        """run fn() as one full-expression; returns (pre, result, post)"""
        op, oq = self.pre, self.post
        self.pre, self.post = [], []
        try:
            r = fn()
            return self.pre, r, list(reversed(self.post))
        finally:
            self.pre, self.post = op, oq

    # ---------------------------------------------------------------- expressions
    def ex(self, n):
        """C expression with the same value category sense as n (glvalue -> C lvalue)"""
        k = n.get('kind')
        m = getattr(self, 'e_' + k, None)
        if m is None:
            self.err(n, 'expression kind outside the vocabulary')
        return m(n)

    def addr(self, n):
        """address of glvalue n"""
        k = n.get('kind')
        if k in ('UnaryOperator',) and n.get('opcode') in ('++', '--') and not n.get('isPostfix'):
            inner = self.ex(kids(n)[0])
            return '(%s%s, %s)' % (n['opcode'], inner, self.addr_of(inner))
        if k in ('BinaryOperator', 'CompoundAssignOperator') and n.get('opcode', '').endswith('=') and n['opcode'] not in ('==', '!=', '<=', '>='):
            lhs = kids(n)[0]
            return '(%s, %s)' % (self.ex(n), self.addr(lhs))
        return self.addr_of(self.ex(n))

    def e_passthrough(self, n):
        return self.ex(kids(n)[-1])

    e_ExprWithCleanups = e_CXXBindTemporaryExpr = e_ConstantExpr = e_ParenExpr = e_passthrough
    e_SubstNonTypeTemplateParmExpr = e_passthrough
    e_CXXRewrittenBinaryOperator = e_passthrough      # C++20 rewritten a != b: clang stores the semantic form !(a == b)

    def e_ParenExpr(self, n):
        return '(%s)' % self.ex(kids(n)[0])

    def e_IntegerLiteral(self, n):
        t = self.lw.ty(n)
        return str(n['value']) + LITSUF.get(t.name, '')

    def e_CharacterLiteral(self, n):
        return str(n['value'])

    def e_FloatingLiteral(self, n):
        return str(n['value'])

    def e_CXXBoolLiteralExpr(self, n):
        return '1' if n['value'] else '0'

    def e_CXXNullPtrLiteralExpr(self, n):
        return '((void*)0)'

    def e_GNUNullExpr(self, n):
        return '0'

    def e_StringLiteral(self, n):
        return n['value']

    def e_PredefinedExpr(self, n):
        return '"%s"' % self.f.qual.replace('"', '')

    def e_CXXThisExpr(self, n):
        return self.this_expr

    def e_ImplicitValueInitExpr(self, n):
        t = self.lw.ty(n)
        if t.is_scalar():
            return '((%s)0)' % self.lw.ctype(t)
        return '((%s){0})' % self.lw.ctype(t)

    def e_CXXScalarValueInitExpr(self, n):
        return '((%s)0)' % self.lw.ctype(self.lw.ty(n))

    def e_DeclRefExpr(self, n):
        ref = n['referencedDecl']
        rk, rid = ref.get('kind'), ref.get('id')
        if rk in ('VarDecl', 'ParmVarDecl', 'BindingDecl', 'DecompositionDecl'):
            if rid in self.captures:
                return self.captures[rid]
            if rid in self.lw.globals:
                cname, node = self.lw.globals[rid]
                self.lw.used_globals.add(cname)
                return cname
            name = ref.get('name') or self.lw.param_names.get(rid)
            if name is None:
                self.err(n, 'reference to an unnamed declaration')
            if rk == 'BindingDecl':
                if rid in self.bindings:
                    return self.bindings[rid]
                self.err(n, 'binding without decomposition')
            dt = self.lw.te.parse(ref.get('type', {}).get('desugaredQualType') or ref['type']['qualType'])
            if dt.is_ref() or rid in self.byptr_params:
                return '(*%s)' % name
            return name
        if rk == 'EnumConstantDecl':
            if rid in self.lw.enum_consts:
                return self.lw.enum_consts[rid]
            return 'X_enum_' + ref.get('name')
        if rk in ('FunctionDecl', 'CXXMethodDecl'):
            return self.func_name(ref)
        self.err(n, 'DeclRefExpr to %s' % rk)

    bindings = {}

    def func_name(self, ref):
        rid = ref.get('id')
        f = self.lw.funcs.get(rid)
        if f is not None:
            self.calls.add(f.cname)
            return f.cname
        name = ref.get('name')
        if name in self.lw.extern_c:
            return name
        sig = ref.get('type', {}).get('qualType', '')
        t = self.lw.te.parse(sig)
        ps = t.params if t.kind == 'func' else []
        base = 'X_%s__%s' % (sanitize(OPNAMES.get(name, name)), self.lw.sig_suffix([repr(p) for p in ps]))
        if name in self.lw.cfg.get('ext_overload_by_ret', []) and t.kind == 'func':
            base += '__to_' + self.lw.sig_suffix([repr(t.ret)])     # e.g. std::get<T>: distinguished by explicit template argument
        return base

    def e_MemberExpr(self, n):
        base = kids(n)[0]
        mid = n.get('referencedMemberDecl')
        name = n.get('name')
        if mid in self.lw.globals:       # static data member through object
            return self.lw.globals[mid][0]
        if mid in self.lw.fields:
            name = self.lw.fields[mid][1]
        bt = self.lw.ty(base)
        if n.get('isArrow'):
            b = self.ex(base)
            s = '%s->%s' % (b, name)
        else:
            if is_glvalue(base):
                b = self.ex(base)
            else:
                b = self.materialize(base)
            s = '%s.%s' % (b, name)
        # a member of a modelled (external) record that the model keeps behind a pointer (@field_map CEnt.second = kid)
        if mid not in self.lw.fields and bt is not None:
            rt_ = bt.to if bt.kind in ('ptr', 'ref') else bt
            if rt_.is_record() and self.lw.rec_of(rt_) is None:
                fm = self.lw.cfg.get('field_map', {}).get('%s.%s' % (self.lw.ext_record_cname(rt_), name))
                if fm:
                    s = '(*%s%s%s)' % (b, '->' if n.get('isArrow') else '.', fm)
        # ownership discipline (DESIGN.md 4.4): every access to a declared shared field is an obligation
        fi = self.lw.fields.get(mid)
        if fi is not None:
            key = '%s.%s' % (fi[0].cname, fi[1])
            g = self.lw.cfg.get('guarded', {})
            if key in g:
                kind = 'W' if getattr(self, 'write_ctx', False) else 'R'
                self.lw.access_sites.append((self.f.cname, key, kind, self.cur_line if hasattr(self, 'cur_line') else None))
                s = '(*(verif_access(%s, ACC_%s, %s), &(%s)))' % (g[key], kind, b if n.get('isArrow') else self.addr_of(b), s)
        # reference-typed field -> stored as pointer
        ft = self.field_type(mid, n)
        if ft is not None and ft.is_ref():
            return '(*%s)' % s
        return s

    def field_type(self, mid, n):
        fi = self.lw.fields.get(mid)
        if fi is None:
            return None
        rec, name = fi
        for (fn, ft, fnode) in rec.fields:
            if fnode['id'] == mid:
                return self.lw.te.parse(qt(fnode))
        return None

    def e_ArraySubscriptExpr(self, n):
        a, b = kids(n)
        return '%s[%s]' % (self.ex(a), self.ex(b))

    def e_UnaryOperator(self, n):
        op = n['opcode']
        x = kids(n)[0]
        if op == '&':
            if x.get('kind') == 'DeclRefExpr' and x['referencedDecl'].get('kind') in ('FunctionDecl', 'CXXMethodDecl'):
                return self.ex(x)
            return self.addr(x)
        if op == '*':
            return self.deref(self.ex(x))
        if op in ('++', '--'):
            old = getattr(self, 'write_ctx', False)
            self.write_ctx = True
            s = self.ex(x)
            self.write_ctx = old
        else:
            s = self.ex(x)
        if op in ('++', '--'):
            return '(%s%s)' % (s, op) if n.get('isPostfix') else '(%s%s)' % (op, s)
        if op in ('-', '+', '!', '~'):
            return '(%s%s)' % (op, s)
        if op == '__extension__':
            return s
        self.err(n, 'unary operator ' + op)

    def e_BinaryOperator(self, n):
        op = n['opcode']
        a, b = kids(n)
        if op in ('.*', '->*'):
            self.err(n, 'pointer to member')
        if op.endswith('=') and op not in ('==', '!=', '<=', '>='):
            old = getattr(self, 'write_ctx', False)
            self.write_ctx = True
            sa = self.ex(a)
            self.write_ctx = old
            return '(%s %s %s)' % (sa, op, self.ex(b))
        if op in ('&&', '||', ','):
            # temporaries created in the right operand would be hoisted out of the short circuit
            pre0 = len(self.pre) if self.pre is not None else 0
            sa = self.ex(a)
            sb = self.ex(b)
            if self.pre is not None and len(self.pre) != pre0 and op != ',':
                self.conditional_hoist(n, pre0)
            return '(%s %s %s)' % (sa, op, sb)
        return '(%s %s %s)' % (self.ex(a), op, self.ex(b))

    def conditional_hoist(self, n, pre0):
        # hoisting is only harmless if what was hoisted has no side effects we care about: calls to
        # lowered/const functions whose evaluation is safe even when the left operand short-circuits.
        # We accept it for pure accessor calls (names in cfg['pure_hoist']) and abort otherwise.
        ok = self.lw.cfg.get('pure_hoist', [])
        for line in self.pre[pre0:]:
            m = re.search(r'\b([A-Za-z_][A-Za-z0-9_]*)\(', line)
            if m and not any(re.fullmatch(p, m.group(1)) for p in ok) and not line.strip().startswith('struct '):
                self.err(n, 'temporary with side effects inside a short-circuit operand: ' + line.strip())

    e_CompoundAssignOperator = e_BinaryOperator

    def e_ConditionalOperator(self, n):
        c, a, b = kids(n)
        # assert(expr) as expanded by glibc: (static_cast<bool>(e) ? void(0) : __assert_fail(...))
        callee = strip_casts(b)
        if callee.get('kind') == 'CallExpr':
            cal = strip_casts(kids(callee)[0])
            if cal.get('kind') == 'DeclRefExpr' and cal['referencedDecl'].get('name') == '__assert_fail':
                text = strip_casts(kids(callee)[1])
                msg = text.get('value', '""').strip('"') if text.get('kind') == 'StringLiteral' else 'assert'
                line = n.get('range', {}).get('begin', {}).get('expansionLoc', {}).get('line') or ''
                return '__CPROVER_assert(%s, "assert(%s) in %s")' % (self.ex(c), msg.replace('\\', ''), self.f.qual)
        pre0 = len(self.pre) if self.pre is not None else 0
        sc = self.ex(c)
        pre1 = len(self.pre) if self.pre is not None else 0
        if is_glvalue(n):
            r = '(*(%s ? %s : %s))' % (sc, self.addr(a), self.addr(b))
        else:
            r = '(%s ? %s : %s)' % (sc, self.ex(a), self.ex(b))
        if self.pre is not None and len(self.pre) != pre1:
            self.conditional_hoist(n, pre1)
        return r

    def e_UnaryExprOrTypeTraitExpr(self, n):
        name = n.get('name')
        if name not in ('sizeof', 'alignof'):
            self.err(n, 'type trait ' + str(name))
        fn = 'sizeof' if name == 'sizeof' else '_Alignof'
        if 'argType' in n:
            t = self.lw.te.parse(n['argType'].get('desugaredQualType') or n['argType']['qualType'])
            return '%s(%s)' % (fn, self.lw.ctype(t.strip_ref()))
        return '%s(%s)' % (fn, self.ex(kids(n)[0]))

    # ---- casts
    def cast(self, n):
        ck = n.get('castKind')
        x = kids(n)[-1]
        t = self.lw.ty(n)
        if ck in ('NoOp', 'LValueToRValue', 'FunctionToPointerDecay', 'ConstructorConversion',
                  'UserDefinedConversion', 'ArrayToPointerDecay', 'BuiltinFnToFnPtr'):
            if ck == 'ArrayToPointerDecay':
                s = self.ex(x)
                return s if x.get('kind') == 'StringLiteral' else '(&(%s)[0])' % s
            if not is_glvalue(x) and t.is_record() and n.get('kind') != 'ImplicitCastExpr' and ck in ('ConstructorConversion', 'NoOp'):
                return self.ex(x)
            return self.ex(x)
        if ck in ('IntegralCast', 'BitCast', 'IntegralToFloating', 'FloatingCast', 'FloatingToIntegral',
                  'PointerToIntegral', 'IntegralToPointer', 'BooleanToSignedIntegral'):
            return '((%s)%s)' % (self.lw.ctype(t), self.ex(x))
        if ck == 'NullToPointer':
            return '((%s)0)' % self.lw.ctype(t)
        if ck in ('IntegralToBoolean', 'PointerToBoolean', 'FloatingToBoolean'):
            return '(%s != 0)' % self.ex(x)
        if ck == 'ToVoid':
            return '((void)%s)' % self.ex(x)
        if ck in ('DerivedToBase', 'UncheckedDerivedToBase'):
            path = n.get('path', [])
            if is_glvalue(x) and not self.lw.ty(x).kind == 'ptr':
                s = self.ex(x)
                for p in path:
                    s = '%s.__base_%s' % (s, sanitize(re.sub(r'<.*>$', '', p['name']).split('::')[-1]))
                return s
            s = self.ex(x)
            inner = '(*%s)' % s
            for p in path:
                inner = '%s.__base_%s' % (inner, sanitize(re.sub(r'<.*>$', '', p['name']).split('::')[-1]))
            return '(%s ? &%s : ((%s)0))' % (s, inner, self.lw.ctype(t)) if False else '(&%s)' % inner
        if ck == 'BaseToDerived':
            # base is the first member, so the address is the same
            if self.lw.ty(n).kind == 'ptr':
                return '((%s)%s)' % (self.lw.ctype(t), self.ex(x))
            return '(*(%s*)%s)' % (self.lw.ctype(t), self.addr(x))
        self.err(n, 'cast kind %s' % ck)

    def e_ImplicitCastExpr(self, n):
        return self.cast(n)

    e_CStyleCastExpr = e_CXXStaticCastExpr = e_CXXReinterpretCastExpr = e_CXXConstCastExpr = e_ImplicitCastExpr

    def e_CXXFunctionalCastExpr(self, n):
        t = self.lw.ty(n)
        if t.is_record():
            return self.materialize(n)
        return self.cast(n)

    # ---- class prvalues
    def is_class_prvalue(self, n):
        return not is_glvalue(n) and self.lw.ty(n).is_record()

    def materialize(self, n, lifetime_ext=False):
        """class prvalue -> temporary object; returns its C lvalue"""
        t = self.lw.ty(n)
        # trivial copy from an lvalue needs no temporary
        src = self.trivial_copy_source(n)
        if src is not None:
            return src
        if self.pre is None:
            self.err(n, 'temporary outside a full-expression')
        tmp = self.newtmp()
        at = len(self.pre)
        self.init_into('&' + tmp, n)
        self.pre.insert(at, '%s;' % self.lw.ctype(t, tmp))     # declared after lowering: lambdas register their type late
        if self.lw.nontrivial_dtor(t):
            d = self.dtor_stmt(t, '&' + tmp)
            if lifetime_ext:
                self.scopes[-1].dtors.append(d)
            else:
                self.post.append(d)
        return tmp

    def trivial_copy_source(self, n):
        x = n
        while x.get('kind') in PASS_THROUGH or (x.get('kind') in ('ImplicitCastExpr', 'CXXFunctionalCastExpr') and x.get('castKind') in ('NoOp', 'ConstructorConversion')):
            x = kids(x)[-1]
        if x.get('kind') == 'CXXConstructExpr' and len(kids(x)) == 1:
            t = self.lw.ty(x)
            a = kids(x)[0]
            if self.lw.is_trivial_class(t) and self.same_record(self.lw.ty(a), t):
                if is_glvalue(a):
                    return self.ex(a)
                return self.trivial_copy_source(a) if self.is_class_prvalue(a) else None
        return None

    def same_record(self, a, b):
        return a.kind == 'record' and b.kind == 'record' and a.name == b.name

    def e_MaterializeTemporaryExpr(self, n):
        x = kids(n)[0]
        t = self.lw.ty(n)
        ext = n.get('storageDuration') == 'automatic'
        if t.is_record():
            return self.materialize(x, lifetime_ext=ext)
        if t.kind == 'array':
            self.err(n, 'array temporary')
        return '(*(%s[1]){%s})' % (self.lw.ctype(t), self.ex(x)) if False else '((%s){%s})' % (self.lw.ctype(t), self.ex(x))

    def e_CXXConstructExpr(self, n):
        return self.materialize(n)

    e_CXXTemporaryObjectExpr = e_CXXConstructExpr

    def e_InitListExpr(self, n):
        t = self.lw.ty(n)
        if t.is_scalar():
            ks = kids(n)
            return self.ex(ks[0]) if ks else '((%s)0)' % self.lw.ctype(t)
        if t.is_record():
            return self.materialize(n)
        self.err(n, 'init list of type %r' % t)

    def e_LambdaExpr(self, n):
        return self.materialize(n)

    def e_CXXDefaultArgExpr(self, n):
        self.err(n, 'default argument (resolved at the call site only)')

    def e_CXXDefaultInitExpr(self, n):
        self.err(n, 'default member initializer outside a constructor')

    def dtor_stmt(self, t, ptr):
        if t.kind == 'array':
            self.err({'kind': 'array'}, 'array of destructible objects')
        r = self.lw.rec_of(t)
        if r is not None:
            f = self.lw.dtor_of(r)
            self.calls.add(f)
            return '%s(%s);' % (f, ptr)
        return '%s__dtor(%s);' % (self.lw.ext_record_cname(t), ptr)

    def ctor_name(self, t, ctor_sig, n):
        """name of the constructor of record type t with clang signature string ctor_sig"""
        r = self.lw.rec_of(t)
        sigt = self.lw.te.parse(ctor_sig)
        ps = sigt.params if sigt.kind == 'func' else []
        if r is not None:
            # find the lowered constructor with that signature
            for f in self.lw.all_funcs():
                if f.cls is r and f.is_ctor and self.sig_equal(f, ps):
                    self.calls.add(f.cname)
                    return f.cname, f
            self.err(n, 'constructor %s of %s not found' % (ctor_sig, t.name))
        base = self.lw.ext_record_cname(t)
        if len(ps) == 0:
            return base + '__ctor_default', None
        if len(ps) == 1 and ps[0].is_ref() and self.same_record(ps[0].to, t):
            return base + ('__ctor_move' if ps[0].rref else '__ctor_copy'), None
        return base + '__ctor__' + self.lw.sig_suffix([repr(p) for p in ps]), None

    def sig_equal(self, f, ps):
        fps = [self.lw.te.parse(qt(p)) for p in f.params()]
        if len(fps) != len(ps):
            return False
        return all(self.lw.te.canon(a) == self.lw.te.canon(b) for a, b in zip(fps, ps))

    def init_into(self, dst, n):
        """emit (into self.pre) statements that construct the class prvalue n at pointer expression dst"""
        k = n.get('kind')
        t = self.lw.ty(n)
        if k in PASS_THROUGH or k == 'MaterializeTemporaryExpr':
            return self.init_into(dst, kids(n)[-1])
        if k in ('ImplicitCastExpr', 'CXXFunctionalCastExpr', 'CXXStaticCastExpr', 'CStyleCastExpr') and \
                n.get('castKind') in ('NoOp', 'ConstructorConversion', 'UserDefinedConversion'):
            return self.init_into(dst, kids(n)[-1])
        if k in ('CXXConstructExpr', 'CXXTemporaryObjectExpr'):
            args = kids(n)
            if len(args) == 1 and self.is_class_prvalue(args[0]) and self.same_record(self.lw.ty(args[0]), t):
                # guaranteed copy elision
                return self.init_into(dst, args[0])
            if self.lw.is_trivial_class(t):
                if len(args) == 1 and self.same_record(self.lw.ty(args[0]).strip_ref(), t) and is_glvalue(args[0]):
                    self.pre.append('%s = %s;' % (self.deref(dst), self.ex(args[0])))
                    return
                if len(args) == 0 and self.default_ctor_is_trivial(t, n):
                    if n.get('zeroing') or n.get('list') or True:
                        if n.get('zeroing'):
                            self.pre.append('%s = (%s){0};' % (self.deref(dst), self.lw.ctype(t)))
                    return
            name, f = self.ctor_name(t, n.get('ctorType', {}).get('qualType', 'void ()'), n)
            al = self.call_args(args, f, n)
            self.pre.append('%s(%s);' % (name, ', '.join([dst] + al)))
            return
        if k in ('CallExpr', 'CXXMemberCallExpr', 'CXXOperatorCallExpr'):
            s = self.call(n, dest=dst)
            self.pre.append(s + ';')
            return
        if k == 'InitListExpr':
            return self.init_list_into(dst, n, t)
        if k == 'LambdaExpr':
            return self.lambda_into(dst, n)
        if k == 'CXXDefaultArgExpr':
            self.err(n, 'default argument of class type')
        if k == 'ConditionalOperator':
            c, a, b = kids(n)
            sc = self.ex(c)
            self.pre.append('if (%s) {' % sc)
            self.init_into(dst, a)
            self.pre.append('} else {')
            self.init_into(dst, b)
            self.pre.append('}')
            return
        if is_glvalue(n):
            self.err(n, 'init_into from glvalue')
        self.err(n, 'class prvalue kind outside the vocabulary')

    def default_ctor_is_trivial(self, t, n):
        r = self.lw.rec_of(t)
        if r is None:
            return t.name in self.lw.trivial_ext
        dc = r.dd.get('defaultCtor', {})
        return bool(dc.get('trivial'))

    def init_list_into(self, dst, n, t):
        r = self.lw.rec_of(t)
        if r is None:
            # external aggregate: build with a compound literal if all scalar
            vals = [self.ex(c) for c in kids(n)]
            self.pre.append('%s = (%s){%s};' % (self.deref(dst), self.lw.ctype(t), ', '.join(vals) or '0'))
            return
        items = [c for c in kids(n)]
        fields = r.fields
        for (fname, _, fnode), item in zip(fields, items):
            self.init_field('%s->%s' % (dst, fname) if not dst.startswith('&') else '%s.%s' % (dst[1:], fname), fnode, item)
        if len(items) < len(fields):
            for (fname, _, fnode) in fields[len(items):]:
                ks = [c for c in kids(fnode) if 'valueCategory' in c or c.get('kind') == 'InitListExpr']
                if not ks:
                    ft = self.lw.te.parse(qt(fnode))
                    if ft.is_scalar():
                        lv = '%s->%s' % (dst, fname) if not dst.startswith('&') else '%s.%s' % (dst[1:], fname)
                        self.pre.append('%s = 0;' % lv)
                    continue
                self.init_field('%s->%s' % (dst, fname) if not dst.startswith('&') else '%s.%s' % (dst[1:], fname), fnode, ks[0])

    def init_field(self, lv, fnode, item):
        """initialise field lvalue lv (C lvalue string) of declared type from expression item"""
        ft = self.lw.te.parse(qt(fnode))
        if item.get('kind') == 'CXXDefaultInitExpr':
            ks = [c for c in kids(fnode) if 'valueCategory' in c or c.get('kind') == 'InitListExpr']
            if not ks:
                self.err(item, 'default member initializer not found')
            item = ks[0]
        if item.get('kind') == 'ImplicitValueInitExpr':
            if ft.is_scalar():
                self.pre.append('%s = 0;' % lv)
            elif ft.is_record() and self.lw.is_trivial_class(ft):
                self.pre.append('%s = (%s){0};' % (lv, self.lw.ctype(ft)))
            else:
                self.err(item, 'value-initialisation of non-trivial member')
            return
        if ft.is_ref():
            self.pre.append('%s = %s;' % (lv, self.addr(item)))
        elif ft.is_record():
            self.init_into('&' + lv if not lv.startswith('(*') else self.addr_of(lv), item)
        elif ft.kind == 'array':
            self.err(item, 'array member initialiser')
        else:
            self.pre.append('%s = %s;' % (lv, self.ex(item)))

    # ---- calls
    def call_args(self, args, f, n, ptypes=None):
        """lower call arguments. f = lowered callee Func or None."""
        out = []
        params = f.params() if f is not None else []
        for i, a in enumerate(args):
            if a.get('kind') == 'CXXDefaultArgExpr':
                if i < len(params):
                    ks = [c for c in kids(params[i]) if 'valueCategory' in c]
                    dn = None
                    for ff in self.lw.all_funcs():
                        pass
                    if not ks and f is not None:
                        # default argument lives on the first declaration
                        for nd in self.lw.decl_nodes_of(f):
                            ps = [c for c in kids(nd) if c.get('kind') == 'ParmVarDecl']
                            if i < len(ps):
                                ks = [c for c in kids(ps[i]) if 'valueCategory' in c]
                                if ks:
                                    break
                    if ks:
                        a = ks[0]
                    else:
                        self.err(n, 'default argument expression not available')
                else:
                    continue        # external (modelled) callee: defaulted trailing arguments are not passed to the model
            if is_glvalue(a):
                out.append(self.addr(a))
            elif self.is_class_prvalue(a):
                t = self.lw.ty(a)
                if self.lw.is_trivial_class(t):
                    out.append(self.materialize(a))
                else:
                    out.append('&' + self.materialize(a))
            else:
                out.append(self.ex(a))
        return out

    def call(self, n, dest=None):
        k = n['kind']
        ks = kids(n)
        obj = None
        callee_ref = None
        f = None
        if k == 'CXXMemberCallExpr':
            me = strip_casts(ks[0])
            args = ks[1:]
            if me.get('kind') != 'MemberExpr':
                self.err(n, 'member call through %s' % me.get('kind'))
            base = kids(me)[0]
            mid = me.get('referencedMemberDecl')
            f = self.lw.funcs.get(mid)
            oldw = getattr(self, 'write_ctx', False)
            self.write_ctx = me.get('name') in self.lw.cfg.get('mutating_methods', [])
            if me.get('isArrow'):
                obj = self.ex(base)
            else:
                obj = self.addr(base) if is_glvalue(base) else '&' + self.materialize(base)
            self.write_ctx = oldw
            bt = self.lw.ty(base)
            if bt.kind == 'ptr':
                bt = bt.to
            mname = me.get('name')
            if f is not None:
                fname = f.cname
                self.calls.add(fname)
                if f.virtual and not self.lw.cfg.get('devirtualize', {}).get(f.cname):
                    fname = f.cname + '__virtual'
            elif mname.startswith('~'):
                fname = None
                if bt.is_record():
                    return self.dtor_stmt(bt, obj).rstrip(';')
                return '((void)0)'      # pseudo-destructor of a scalar
            else:
                fname = '%s__%s' % (self.lw.ext_record_cname(bt), sanitize(OPNAMES.get(mname, mname)))
                if self.lw.cfg.get('ext_overload_by_arity', {}).get(fname):
                    fname += '_%d' % len([a for a in args if a.get('kind') != 'CXXDefaultArgExpr'])
                if fname in self.lw.cfg.get('ext_overload_by_type', []):
                    fname += '__' + self.lw.sig_suffix([qt(a) for a in args])
        else:
            cal = strip_casts(ks[0])
            args = ks[1:]
            if cal.get('kind') == 'CXXPseudoDestructorExpr':
                return '((void)0)'      # destructor of a scalar: no effect
            if cal.get('kind') != 'DeclRefExpr' or cal['referencedDecl'].get('kind') not in ('FunctionDecl', 'CXXMethodDecl'):
                # call through a function pointer / closure value
                fp = self.ex(ks[0])
                al = self.call_args(args, None, n)
                rt = self.lw.ty(n)
                if self.is_class_prvalue(n):
                    self.err(n, 'indirect call returning a class')
                s = '%s(%s)' % (fp, ', '.join(al))
                return '(*%s)' % s if is_glvalue(n) else s
            ref = cal['referencedDecl']
            f = self.lw.funcs.get(ref.get('id'))
            name = ref.get('name')
            if f is None and name in IDENTITY_FUNCS and len(args) == 1:
                return self.ex(args[0])
            is_method = (ref.get('kind') == 'CXXMethodDecl') and (f.is_method if f is not None else k == 'CXXOperatorCallExpr')
            if is_method:
                o = args[0]
                args = args[1:]
                oldw = getattr(self, 'write_ctx', False)
                # an assignment operator applied to a guarded field (e.g. std::atomic<bool>::operator=) is a write
                self.write_ctx = name.endswith('=') and name not in ('operator==', 'operator!=', 'operator<=', 'operator>=')
                obj = self.addr(o) if is_glvalue(o) else '&' + self.materialize(o)
                self.write_ctx = oldw
                if f is not None:
                    fname = f.cname
                    self.calls.add(fname)
                    if f.virtual:
                        fname += '__virtual'
                else:
                    bt = self.lw.ty(o)
                    base = OPNAMES.get(name, name)
                    if name == 'operator=' and len(args) == 1:
                        at = self.lw.te.parse(ref['type']['qualType'])
                        p0 = at.params[0] if at.kind == 'func' and at.params else None
                        if p0 is not None and p0.is_ref() and self.same_record(p0.to, bt):
                            base = 'assign_move' if p0.rref else 'assign_copy'
                    fname = '%s__%s' % (self.lw.ext_record_cname(bt), sanitize(base))
            else:
                fname = self.func_name(ref)
        al = self.call_args(args, f, n)
        full = ([obj] if obj is not None else []) + al
        if f is not None and fname == f.cname and fname in self.lw.cfg.get('rec_twin', []):
            fname += '__rec'        # (mutually) recursive call: goes through the contract twin, see Emitter.lower_func
        if self.is_class_prvalue(n):
            if dest is None:
                return self.materialize(n)
            full.append(dest)
            return '%s(%s)' % (fname, ', '.join(full))
        s = '%s(%s)' % (fname, ', '.join(full))
        if is_glvalue(n):
            return '(*%s)' % s
        return s

    def e_CallExpr(self, n):
        if self.is_class_prvalue(n):
            return self.materialize(n)
        return self.call(n)

    e_CXXMemberCallExpr = e_CXXOperatorCallExpr = e_CallExpr

    # ---- new / delete
    def e_CXXNewExpr(self, n):
        ks = kids(n)
        t = self.lw.ty(n)            # pointer to the allocated type
        et = t.to
        if n.get('isArray'):
            self.err(n, 'array new')
        init = None
        placement = list(ks)
        if n.get('initStyle') and ks:
            init = ks[0]
            placement = ks[1:]
        if self.pre is None:
            self.err(n, 'new outside a full-expression')
        tmp = self.newtmp()
        if n.get('isPlacement'):
            if len(placement) != 1:
                self.err(n, 'placement new with %d placement arguments' % len(placement))
            self.pre.append('%s = (%s)%s;' % (self.lw.ctype(t, tmp), self.lw.ctype(t), self.ex(placement[0])))
        else:
            self.pre.append('%s = (%s)X_operator_new(sizeof(%s));' % (self.lw.ctype(t, tmp), self.lw.ctype(t), self.lw.ctype(et)))
        if init is not None:
            if et.is_record():
                self.init_into(tmp, init)
            else:
                self.pre.append('*%s = %s;' % (tmp, self.ex(init)))
        return tmp

    def e_CXXDeleteExpr(self, n):
        x = kids(n)[0]
        t = self.lw.ty(x)
        if n.get('isArray'):
            self.err(n, 'array delete')
        et = t.to
        p = self.ex(x)
        if et.is_record():
            r = self.lw.rec_of(et)
            if r is not None and not self.lw.has_virtual_dtor(r):
                d = self.dtor_stmt(et, '__d').rstrip(';') if not r.trivial_dtor() else '(void)0'
                tmp = self.newtmp()
                self.pre.append('%s = %s;' % (self.lw.ctype(t, tmp), p))
                self.pre.append('if (%s) { %s * __d = %s; %s; X_operator_delete(__d); }' % (tmp, self.lw.ctype(et), tmp, d))
                return '((void)0)'
            return '%s__delete(%s)' % (self.lw.te.record_cname(et.name), p)
        return 'X_operator_delete(%s)' % p
