"""Statement lowering, lambdas, function and translation-unit emission for cxxlower."""
import re
from cxxtypes import T, LowerError, sanitize
from cxxlower import kids, qt, Lowerer, Func, Record
from cxxbody import FnCtx, Scope, is_glvalue, strip_casts


def ind(lines, n=1):
    return [('  ' * n) + l for l in lines]


class Stmts(FnCtx):
    # ---------------------------------------------------------------- scopes
    def push(self, kind):
        self.scopes.append(Scope(kind))

    def pop(self, emit=True):
        s = self.scopes.pop()
        return list(reversed(s.dtors)) if emit else []

    def dtors_upto(self, kinds):
        out = []
        for s in reversed(self.scopes):
            out += list(reversed(s.dtors))
            if s.kind in kinds:
                break
        return out

    def loc(self, n):
        b = n.get('range', {}).get('begin', {})
        b = b.get('expansionLoc', b)
        if 'line' in b:
            self.cur_line = b['line']
        if 'file' in b:
            self.cur_file = b['file']
        return getattr(self, 'cur_line', None)

    cur_file = None

    # ---------------------------------------------------------------- statements
    def st(self, n):
        if n is None or not n:
            return []
        k = n.get('kind')
        if k in ('ExprWithCleanups', 'CXXBindTemporaryExpr') and kids(n) and kids(n)[0].get('kind') == 'CXXThrowExpr':
            n = kids(n)[0]
            k = 'CXXThrowExpr'
        m = getattr(self, 's_' + k, None)
        ln = self.loc(n)
        if m is None:
            if 'valueCategory' in n:
                out = self.s_expr(n)
            else:
                self.err(n, 'statement kind outside the vocabulary')
        else:
            out = m(n)
        if ln and out and self.lw.cfg.get('line_comments', True):
            out = ['/* L%s */ %s' % (ln, out[0])] + out[1:]
        return out

    def s_NullStmt(self, n):
        return [';']

    def s_CompoundStmt(self, n, kind='block'):
        self.push(kind)
        body = []
        last_jump = False
        for c in kids(n):
            ls = self.st(c)
            body += ls
            last_jump = c.get('kind') in ('ReturnStmt', 'BreakStmt', 'ContinueStmt')
        d = self.pop()
        if not last_jump:
            body += d
        return ['{'] + ind(body) + ['}']

    def s_expr(self, n):
        def go():
            if self.is_class_prvalue(n):
                self.materialize(n)
                return None
            if n.get('kind') in ('CXXMemberCallExpr',) and False:
                pass
            return self.ex(n)
        pre, r, post = self.full(go)
        out = list(pre)
        if r is not None and r.strip() not in ('((void)0)',):
            out.append(r + ';')
        out += post
        return out

    def s_DeclStmt(self, n):
        out = []
        for d in kids(n):
            k = d.get('kind')
            if k == 'VarDecl':
                out += self.var_decl(d)
            elif k == 'DecompositionDecl':
                out += self.decomp_decl(d)
            elif k in ('TypeAliasDecl', 'TypedefDecl', 'UsingDirectiveDecl', 'UsingDecl', 'StaticAssertDecl'):
                if k in ('TypeAliasDecl', 'TypedefDecl'):
                    ty = d.get('type', {})
                    self.lw.te.typedefs.setdefault(d['name'], ty.get('desugaredQualType') or ty.get('qualType'))
            elif k == 'CXXRecordDecl':
                # local class: register as a record (fields only)
                self.lw.collect_record(d, self.f.qual + '::' + d.get('name', 'anon'))
                self.lw.late_records.append(self.lw.records[d['id']])
                self.lw.te.record_alias[d.get('name', 'anon')] = self.f.qual + '::' + d.get('name', 'anon')
            else:
                self.err(d, 'declaration kind in a declaration statement')
        return out

    def var_decl(self, d):
        name = d['name']
        t = self.lw.te.parse(qt(d))
        if d.get('storageClass') == 'static':
            self.err(d, 'static local')
        init = [c for c in kids(d) if 'valueCategory' in c or c.get('kind') in ('InitListExpr',)]
        init = init[0] if init else None
        out = []
        if t.is_ref():
            pre, r, post = self.full(lambda: self.addr(init))
            out += pre + ['%s = %s;' % (self.lw.ctype(t, name), r)] + post
            return out
        if t.kind == 'array':
            if t.to.is_record() and self.lw.nontrivial_dtor(t.to):
                self.err(d, 'array of class objects')
            if init is None:
                return ['%s;' % self.lw.ctype(t, name)]
            if init.get('kind') == 'InitListExpr':
                items = [c for c in kids(init) if c.get('kind') != 'ImplicitValueInitExpr']
                if 'array_filler' in init:
                    items = [c for c in init['array_filler'] if c.get('kind') != 'ImplicitValueInitExpr'] if False else items
                pre, r, post = self.full(lambda: ', '.join(self.ex(c) for c in items))
                return pre + ['%s = {%s};' % (self.lw.ctype(t, name), r or '0')] + post
            self.err(d, 'array initialiser')
        if t.is_record():
            pre = post = []
            if init is not None:
                def go():
                    self.init_into('&' + name, init)
                pre, _, post = self.full(go)
            out.append('%s;' % self.lw.ctype(t, name))
            out += pre + post
            if self.lw.nontrivial_dtor(t):
                self.scopes[-1].dtors.append(self.dtor_stmt(t, '&' + name))
            return out
        if init is None:
            return ['%s;' % self.lw.ctype(t, name)]
        pre, r, post = self.full(lambda: self.ex(init))
        return pre + ['%s = %s;' % (self.lw.ctype(t, name), r)] + post

    def decomp_decl(self, d):
        """auto [a, b] = expr;  (by value or by reference) over a lowered aggregate"""
        t = self.lw.te.parse(qt(d))
        ks = kids(d)
        init = [c for c in ks if 'valueCategory' in c][0]
        binds = [c for c in ks if c.get('kind') == 'BindingDecl']
        self.tmpn += 1
        name = '__dc%d' % self.tmpn
        out = []
        if t.is_ref():
            pre, r, post = self.full(lambda: self.addr(init))
            out += pre + ['%s = %s;' % (self.lw.ctype(t, name), r)] + post
            base = '(*%s)' % name
            rt = t.to
        else:
            out.append('%s;' % self.lw.ctype(t, name))
            pre, _, post = self.full(lambda: self.init_into('&' + name, init))
            out += pre + post
            base = name
            rt = t
            if self.lw.nontrivial_dtor(t):
                self.scopes[-1].dtors.append(self.dtor_stmt(t, '&' + name))
        r = self.lw.rec_of(rt)
        self.bindings = dict(self.bindings)
        if r is None:
            # std::pair is modelled as a C struct with the members first and second (tuple protocol = member order)
            if not str(self.lw.te.canon(rt)).replace('const ', '').startswith('std::pair<') or len(binds) != 2:
                self.err(d, 'structured binding over an external type %r / %r' % (rt, self.lw.te.canon(rt)))
            for b, fname in zip(binds, ('first', 'second')):
                fm = self.lw.cfg.get('field_map', {}).get('%s.%s' % (self.lw.ext_record_cname(rt), fname))
                self.bindings[b['id']] = '(*%s.%s)' % (base, fm) if fm else '%s.%s' % (base, fname)
            return out
        for b, (fname, _, fnode) in zip(binds, r.fields):
            self.bindings[b['id']] = '%s.%s' % (base, fname)
        return out

    def cond(self, c):
        """returns (pre-lines, C condition); temporaries with destructors are settled before the branch"""
        pre, r, post = self.full(lambda: self.ex(c))
        if post:
            self.tmpn += 1
            v = '__c%d' % self.tmpn
            return pre + ['_Bool %s = %s;' % (v, r)] + post, v
        return pre, r

    def s_IfStmt(self, n):
        ks = list(kids(n))
        out = []
        opened = False
        if n.get('hasInit'):
            self.push('block')
            opened = True
            out += self.st(ks.pop(0))
        if n.get('hasVar'):
            self.err(n, 'condition variable')
        c = ks.pop(0)
        then = ks.pop(0) if ks else None
        els = ks.pop(0) if ks else None
        if n.get('isConstexpr'):
            # discarded branch is absent or not instantiated; evaluate the constant
            cc = strip_casts(c, ('ImplicitCastExpr', 'ConstantExpr', 'ParenExpr'))
            val = None
            if c.get('kind') == 'ConstantExpr' and 'value' in c:
                val = c['value'] not in ('0', 0, 'false', False)
            if val is not None:
                body = self.st_block(then) if val else (self.st_block(els) if els else [])
                out += body
                if opened:
                    out += self.pop()
                    out = ['{'] + ind(out) + ['}']
                return out
        pre, sc = self.cond(c)
        out += pre
        out.append('if (%s)' % sc)
        out += self.st_block(then)
        if els is not None:
            out.append('else')
            out += self.st_block(els)
        if opened:
            out += self.pop()
            out = ['{'] + ind(out) + ['}']
        elif pre:
            out = ['{'] + ind(out) + ['}']
        return out

    def st_block(self, n):
        if n is None or not n:
            return ['{ }']
        if n.get('kind') == 'CompoundStmt':
            return self.st(n)
        self.push('block')
        b = self.st(n)
        d = self.pop()
        if n.get('kind') in ('ReturnStmt', 'BreakStmt', 'ContinueStmt'):
            d = []
        return ['{'] + ind(b + d) + ['}']

    def loop_contract(self):
        o = self.loop_ord
        self.loop_ord += 1
        lc = self.loop_contracts.get(o)
        self.used_loops.add(o)
        if lc is None:
            if self.loop_contracts.get('__required__'):
                raise LowerError('%s: loop %d has no loop contract' % (self.f.cname, o))
            return []
        return ['  ' + l for l in lc]

    def loop(self, head_init, c, inc, body_node, extra_first=None):
        """generic for-loop emission: { init; for (; c; inc) CONTRACT { extra_first; body } }"""
        out = list(head_init)
        contract = self.loop_contract()
        self.push('loop')
        cpre, sc = ([], '1') if c is None else self.cond(c)
        if inc is not None:
            ipre, si, ipost = self.full(lambda: self.ex(inc))
            if ipre or ipost:
                self.err(inc, 'temporaries in a loop increment')
        else:
            si = ''
        body = []
        if extra_first:
            body += extra_first()
        if body_node is not None:
            if body_node.get('kind') == 'CompoundStmt':
                inner = self.st(body_node)
                body += inner
            else:
                body += self.st(body_node)
        d = self.pop()
        body += d
        if cpre:
            out.append('for (; ; %s)' % si)
            out += contract
            out += ['{'] + ind(cpre + ['if (!(%s)) break;' % sc] + body) + ['}']
        else:
            out.append('for (; %s; %s)' % (sc, si))
            out += contract
            out += ['{'] + ind(body) + ['}']
        return ['{'] + ind(out) + ['}']

    def s_ForStmt(self, n):
        ks = kids(n)
        init, condvar, c, inc, body = (ks + [None] * 5)[:5]
        self.push('block')
        hi = self.st(init) if init else []
        out = self.loop(hi, c if c else None, inc if inc else None, body)
        d = self.pop()
        if d:
            out = out[:-1] + ind(d) + [out[-1]]
        return out

    def s_WhileStmt(self, n):
        ks = kids(n)
        c, body = ks[-2], ks[-1]
        return self.loop([], c, None, body)

    def s_DoStmt(self, n):
        body, c = kids(n)
        contract = self.loop_contract()
        self.push('loop')
        b = self.st_block(body)
        self.pop()
        pre, sc = self.cond(c)
        if pre:
            self.err(n, 'temporaries in a do-while condition')
        return ['do'] + contract + b + ['while (%s);' % sc]

    def s_CXXForRangeStmt(self, n):
        ks = kids(n)
        init, rng, beg, end, c, inc, var, body = ks
        self.push('block')
        hi = []
        if init:
            hi += self.st(init)
        rv = kids(rng)[0]
        rt = self.lw.te.parse(qt(rv))
        if rt.is_ref() and rt.to.kind == 'array' and rt.to.n:
            # range-for over a built-in array of known bound: emitted as an index loop (same iteration space as the
            # __begin/__end pointer loop clang desugars it to)
            bv = kids(beg)[0]
            idx = '__idx' + ''.join(ch for ch in bv.get('name', '') if ch.isdigit())
            hi += self.st(rng)
            hi.append('unsigned long %s = 0;' % idx)
            old = dict(self.captures)
            self.captures[bv['id']] = '(&(*%s)[0] + %s)' % (rv['name'], idx)
            contract = self.loop_contract()
            self.push('loop')
            bodyl = self.st(var)
            bodyl += self.st(body)
            bodyl += self.pop()
            self.captures = old
            out = hi + ['for (; %s != %sUL; ++%s)' % (idx, rt.to.n, idx)] + contract + ['{'] + ind(bodyl) + ['}']
            d = self.pop()
            return ['{'] + ind(out + d) + ['}']
        hi += self.st(rng) + self.st(beg) + self.st(end)
        out = self.loop(hi, c, inc, body, extra_first=lambda: self.st(var))
        d = self.pop()
        if d:
            out = out[:-1] + ind(d) + [out[-1]]
        return out

    def s_BreakStmt(self, n):
        return self.dtors_upto(('loop', 'switch')) + ['break;']

    def s_ContinueStmt(self, n):
        return self.dtors_upto(('loop',)) + ['continue;']

    def s_ReturnStmt(self, n):
        ks = kids(n)
        d = self.dtors_upto(('func',))
        if not ks:
            return d + ['return;']
        e = ks[0]
        rt = self.ret_t
        if rt.is_ref():
            pre, r, post = self.full(lambda: self.addr(e))
            if not post and not d:
                return pre + ['return %s;' % r]
            return ['{'] + ind(pre + ['%s = %s;' % (self.lw.ctype(rt, '__rv'), r)] + post + d + ['return __rv;']) + ['}']
        if rt.is_record():
            pre, _, post = self.full(lambda: self.init_into('__ret', e))
            return pre + post + d + ['return;']
        if rt.kind == 'builtin' and rt.name == 'void':
            pre, r, post = self.full(lambda: self.ex(e))
            return pre + [r + ';'] + post + d + ['return;']
        pre, r, post = self.full(lambda: self.ex(e))
        if not post and not d:
            return pre + ['return %s;' % r]
        return ['{'] + ind(pre + ['%s = %s;' % (self.lw.ctype(rt, '__rv'), r)] + post + d + ['return __rv;']) + ['}']

    def s_SwitchStmt(self, n):
        ks = kids(n)
        c, body = ks[-2], ks[-1]
        pre, sc = self.cond(c)
        self.push('switch')
        b = self.st(body)
        self.pop()
        return pre + ['switch (%s)' % sc] + b

    def s_CaseStmt(self, n):
        ks = kids(n)
        return ['case %s:' % self.ex(ks[0])] + self.st(ks[-1])

    def s_DefaultStmt(self, n):
        return ['default:'] + self.st(kids(n)[-1])

    def s_CXXThrowExpr(self, n):
        ks = kids(n)
        what = '0'
        call = 'X_throw("%s");' % sanitize(qt(ks[0]) if ks else 'rethrow')
        if ks and self.lw.cfg.get('throw_codes'):
            # @throw_codes: an exception constructed with a trailing integral / enumeration argument (tulz::Exception(message,
            # type)) keeps that argument, so that WHICH error is reported stays visible; the message is dropped
            def find_ctor(x):
                if x.get('kind') in ('CXXConstructExpr', 'CXXTemporaryObjectExpr'):
                    return x
                for c in kids(x):
                    r = find_ctor(c)
                    if r is not None:
                        return r
                return None
            ce = find_ctor(ks[0])
            args = [a for a in kids(ce)] if ce is not None else []
            if len(args) >= 2 and args[-1].get('kind') != 'CXXDefaultArgExpr':
                lt = self.lw.ty(args[-1])
                if lt.kind in ('builtin', 'enum') or (lt.kind == 'builtin' and lt.name in ('int', 'unsigned int', 'long')):
                    call = 'X_throw_code("%s", (int)(%s));' % (sanitize(qt(ks[0])), self.ex(args[-1]))
        return [call + ' /* exception: ghost flag + return */'] + \
            self.dtors_upto(('func',)) + (['return;'] if not self.ret_scalar() else ['return (%s)0;' % self.lw.ctype(self.ret_t)] if not self.ret_t.is_ref() else ['return 0;'])

    def ret_scalar(self):
        rt = self.ret_t
        return not (rt.is_record() or (rt.kind == 'builtin' and rt.name == 'void'))

    # ---------------------------------------------------------------- lambdas
    def lambda_into(self, dst, n):
        ks = kids(n)
        rec = ks[0]
        body = ks[-1]
        inits = ks[1:-1]
        lw = self.lw
        lw.lambda_count += 1
        qual = qt(n)
        r = lw.records.get(rec['id'])
        if r is None:
            self.err(n, 'lambda was not pre-registered')
        cname = r.cname
        r.fields = []
        if r not in lw.late_records:
            lw.late_records.append(r)
        fields = [c for c in kids(rec) if c.get('kind') == 'FieldDecl']
        call = lambda_call_nodes(rec)
        if not call:
            self.err(n, 'generic lambda without exactly one instantiation')
        if len(fields) != len(inits):
            self.err(n, 'lambda captures (%d fields, %d initialisers)' % (len(fields), len(inits)))
        caps = {}
        this_expr = None
        for i, (fd, ie) in enumerate(zip(fields, inits)):
            ft = lw.te.parse(qt(fd))
            core = strip_casts(ie, ('ImplicitCastExpr', 'ParenExpr', 'ExprWithCleanups', 'CXXBindTemporaryExpr'))
            if core.get('kind') == 'CXXThisExpr':
                fname = '__this'
                self.pre.append('%s->%s = %s;' % (dst, fname, self.ex(ie)) if not dst.startswith('&') else '%s.%s = %s;' % (dst[1:], fname, self.ex(ie)))
                this_expr = 'self->__this'
                r.fields.append((fname, None, fd))
                lw.fields[fd['id']] = (r, fname)
                continue
            vid = None
            vname = None
            x = core
            if x.get('kind') == 'CXXConstructExpr' and len(kids(x)) == 1:
                x = strip_casts(kids(x)[0], ('ImplicitCastExpr', 'ParenExpr'))
            if x.get('kind') == 'DeclRefExpr':
                vid = x['referencedDecl']['id']
                vname = x['referencedDecl'].get('name')
            # init-capture:  [name = expr]  -- clang gives the VarDecl in captures of the closure; find by field order
            if vid is None or (core.get('kind') != 'DeclRefExpr' and x.get('kind') == 'DeclRefExpr' and x is not core
                               and strip_casts(ie, ('ImplicitCastExpr', 'ParenExpr')).get('kind') == 'CallExpr'):
                ic = self.init_capture_var(body, caps, ft)
                if ic is not None:
                    vid, vname = ic
            if vid is None:
                # init-capture  [name = expr]: the body refers to a VarDecl that is declared nowhere inside it
                ic = self.init_capture_var(body, caps, ft)
                if ic is None:
                    self.err(n, 'capture initialiser not understood')
                vid, vname = ic
            fname = 'cap_' + vname
            r.fields.append((fname, None, fd))
            lw.fields[fd['id']] = (r, fname)
            lv = '%s->%s' % (dst, fname) if not dst.startswith('&') else '%s.%s' % (dst[1:], fname)
            if ft.is_ref():
                self.pre.append('%s = %s;' % (lv, self.addr(ie)))
                caps[vid] = '(*self->%s)' % fname
            else:
                if ft.is_record():
                    self.init_into(self.addr_of(lv), ie)
                else:
                    self.pre.append('%s = %s;' % (lv, self.ex(ie)))
                caps[vid] = 'self->%s' % fname
        # lower operator()
        fn = lw.funcs[call[0]['id']]
        # nested lambdas see the enclosing captures too (captured through our own closure only if listed)
        sub = Stmts(lw, fn, captures=caps, this_expr=this_expr or 'self->__nothis')
        sub.bindings = self.bindings
        lw.lambda_fns.append((fn, sub))

    def init_capture_var(self, body, known, ft):
        declared, refs = set(), []

        def walk(x):
            if not isinstance(x, dict):
                return
            if x.get('kind') in ('VarDecl', 'ParmVarDecl') and 'id' in x:
                declared.add(x['id'])
            if x.get('kind') == 'DeclRefExpr':
                r = x.get('referencedDecl', {})
                if r.get('kind') == 'VarDecl':
                    refs.append((r.get('id'), r.get('name'), r.get('type', {}).get('qualType')))
            for c in x.get('inner', []) or []:
                walk(c)
        walk(body)
        cands = []
        for (i, nm, ty) in refs:
            if i not in declared and i not in known and i not in self.lw.globals and (i, nm) not in cands:
                cands.append((i, nm))
        return cands[0] if len(cands) == 1 else None


def lambda_call_nodes(rec):
    """operator() of a closure class: the method itself, or - for a generic lambda - its instantiated specialisations"""
    call = [c for c in kids(rec) if c.get('kind') == 'CXXMethodDecl' and c.get('name') == 'operator()']
    if call:
        return call
    out = []
    for t in kids(rec):
        if t.get('kind') == 'FunctionTemplateDecl' and t.get('name') == 'operator()':
            for c in kids(t):
                if c.get('kind') == 'CXXMethodDecl' and any(k.get('kind') == 'TemplateArgument' for k in kids(c)) \
                        and any(k.get('kind') == 'CompoundStmt' for k in kids(c)):
                    out.append(c)
    return out if len(out) == 1 else []


# ---------------------------------------------------------------------- Lowerer extensions
def all_funcs(self):
    seen = set()
    for f in list(self.funcs.values()):
        if id(f) not in seen:
            seen.add(id(f))
            yield f


def decl_nodes_of(self, f):
    out = []
    for i in f.ids:
        n = self.node_by_id.get(i)
        if n is not None:
            out.append(n)
    return out


def dtor_of(self, r):
    for f in self.all_funcs():
        if f.cls is r and f.is_dtor:
            return f.cname
    return r.cname + '__dtor'


def has_virtual_dtor(self, r):
    for f in self.all_funcs():
        if f.cls is r and f.is_dtor and f.virtual:
            return True
    for b in r.bases:
        br = self.rec_by_qual.get(b)
        if br is not None and self.has_virtual_dtor(br):
            return True
        if br is None and b in self.cfg.get('virtual_bases', []):
            return True
    return False


def preregister_lambdas(self):
    """closure classes and their operator() are registered before any body is lowered, so that a call through a
    closure object resolves whatever the lowering order"""
    def walk(x, encl, counter):
        if not isinstance(x, dict):
            return
        if x.get('kind') == 'LambdaExpr':
            ks = kids(x)
            rec = ks[0]
            counter[0] += 1
            cname = 'closure_%s_%d' % (encl, counter[0])
            qual = qt(x)
            for ctx in (encl, cname + '__call'):
                self.te.lambda_names[(ctx, qual)] = cname
            if rec['id'] not in self.records:
                r = Record(rec, qual)
                r.cname = cname
                r.is_lambda = True
                r.fields = []
                self.records[rec['id']] = r
                self.rec_by_qual[qual] = r
                self.te.record_names[qual] = cname
                for ctx in (encl, cname + '__call'):
                    self.lambda_recs[(ctx, qual)] = r
                call = lambda_call_nodes(rec)
                if call:
                    fn = Func(call[0], qual + '::operator()', r, self)
                    fn.cname = cname + '__call'
                    self.funcs[call[0]['id']] = fn
                    self.func_by_cname[fn.cname] = fn
            # captures initialisers and nested lambdas in the body
            sub = [0]
            for c in ks[1:]:
                walk(c, cname + '__call', sub)
            return
        for c in x.get('inner', []) or []:
            walk(c, encl, counter)
    for f in list(self.all_funcs()):
        if f.has_body() and f.cls is not None and f.cls.is_lambda:
            continue
        if f.has_body():
            walk(f.body_node, f.cname, [0])


Lowerer.preregister_lambdas = preregister_lambdas
Lowerer.all_funcs = all_funcs
Lowerer.decl_nodes_of = decl_nodes_of
Lowerer.dtor_of = dtor_of
Lowerer.has_virtual_dtor = has_virtual_dtor
