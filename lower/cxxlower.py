#!/usr/bin/env python3
"""cxxlower: print the instantiated C++ of a clang JSON AST as C, for a fixed node vocabulary.

Usage (library): see lower_component() at the bottom; tools/run.py drives it.
Anything outside the vocabulary raises LowerError -> the run aborts with exit 2 (never a verdict).
"""
import json
import re
import subprocess
import sys
import os

from cxxtypes import T, TypeEnv, LowerError, sanitize, split_top, LITSUF

OPNAMES = {
    'operator[]': 'op_index', 'operator()': 'op_call', 'operator==': 'op_eq', 'operator!=': 'op_ne',
    'operator<': 'op_lt', 'operator>': 'op_gt', 'operator<=': 'op_le', 'operator>=': 'op_ge',
    'operator+': 'op_add', 'operator-': 'op_sub', 'operator*': 'op_star', 'operator/': 'op_div',
    'operator++': 'op_inc', 'operator--': 'op_dec', 'operator+=': 'op_add_assign',
    'operator-=': 'op_sub_assign', 'operator*=': 'op_mul_assign', 'operator/=': 'op_div_assign',
    'operator->': 'op_arrow', 'operator=': 'op_assign', 'operator!': 'op_not', 'operator bool': 'op_bool',
}
PASS_THROUGH = ('ExprWithCleanups', 'CXXBindTemporaryExpr', 'ConstantExpr', 'ParenExpr',
                'SubstNonTypeTemplateParmExpr', 'FullExpr')
IDENTITY_FUNCS = ('move', 'forward', 'as_const', 'addressof_identity')


def load_ast_stream(text):
    dec = json.JSONDecoder()
    i, objs = 0, []
    n = len(text)
    while i < n:
        while i < n and text[i] in ' \n\r\t':
            i += 1
        if i >= n:
            break
        if text[i] != '{':
            j = text.find('\n', i)
            i = n if j < 0 else j + 1
            continue
        o, j = dec.raw_decode(text, i)
        objs.append(o)
        i = j
    return objs


def kids(n):
    return n.get('inner', []) or []


def qt(n):
    t = n.get('type', {})
    return t.get('desugaredQualType') or t.get('qualType') or ''


class Record:
    def __init__(self, node, qual):
        self.node, self.qual = node, qual
        self.id = node['id']
        self.cname = sanitize(qual)
        self.fields = []     # (name, T, node)
        self.bases = []      # qualified names
        self.dd = node.get('definitionData', {})
        self.is_lambda = False
        self.is_union = node.get('tagUsed') == 'union'

    def trivially_copyable(self):
        return bool(self.dd.get('isTriviallyCopyable'))

    def trivial_dtor(self):
        d = self.dd.get('dtor', {})
        return bool(d.get('trivial')) or (not d.get('nonTrivial') and not d.get('userDeclared') and self.trivially_copyable())


class Func:
    def __init__(self, node, qual, cls, lw):
        self.node, self.qual, self.cls = node, qual, cls
        self.ids = {node['id']}
        self.name = node.get('name', '')
        k = node['kind']
        self.is_ctor = k == 'CXXConstructorDecl'
        self.is_dtor = k == 'CXXDestructorDecl'
        self.is_method = k in ('CXXMethodDecl', 'CXXConstructorDecl', 'CXXDestructorDecl', 'CXXConversionDecl') \
            and node.get('storageClass') != 'static'
        self.virtual = bool(node.get('virtual'))
        self.pure = bool(node.get('pure'))
        self.sig = node.get('type', {}).get('qualType', '')
        m = re.match(r'^auto \((.*)\)((?: const| noexcept| mutable)*) -> (.*)$', self.sig)
        if m:      # trailing return type
            self.sig = '%s (%s)%s' % (m.group(3), m.group(1), m.group(2))
        self.is_const = bool(re.search(r'\)\s*const', self.sig))
        self.cname = None
        self.body_node = None
        self.tmpl_args = [c for c in kids(node) if c.get('kind') == 'TemplateArgument']
        self.absorb(node)

    def absorb(self, node):
        self.ids.add(node['id'])
        if any(c.get('kind') == 'CompoundStmt' for c in kids(node)) or \
                (node.get('explicitlyDefaulted') == 'default' and False):
            self.body_node = node
        if self.body_node is None:
            self.decl_node = node

    def params(self):
        n = self.body_node or self.node
        return [c for c in kids(n) if c.get('kind') == 'ParmVarDecl']

    def has_body(self):
        return self.body_node is not None


class Lowerer:
    def __init__(self, objs, cfg):
        self.cfg = cfg
        self.te = TypeEnv()
        self.records = {}      # id -> Record
        self.rec_by_qual = {}
        self.funcs = {}        # id -> Func
        self.enums = {}        # id -> (qual, node)
        self.enum_consts = {}  # id -> cname
        self.globals = {}      # id -> (cname, node)
        self.fields = {}       # field id -> (Record, name)
        self.lambda_count = 0
        self.lambda_recs = {}
        self.te.lambda_names = {}
        self.out_closures = []
        self.warnings = []
        self.vardecl_nodes = {}
        self.trivial_ext = set(cfg.get('trivial_externals', []))
        self.extern_c = set(cfg.get('extern_c', []))
        self.te.record_names = dict(cfg.get('record_names', {}))
        for a, b in cfg.get('aliases', {}).items():
            self.te.record_alias[a] = b
        for a, b in cfg.get('typedefs', {}).items():
            self.te.typedefs[a] = b
        for o in objs:
            self.collect(o, [])
        # records treated as external (only their name is used; constructors etc. are models in /verif/specs)
        ext = cfg.get('external_records', [])
        if ext:
            for rid, r in list(self.records.items()):
                if any(re.search(p, r.qual) for p in ext):
                    del self.records[rid]
                    self.rec_by_qual.pop(r.qual, None)
                    for fid, f in list(self.funcs.items()):
                        if f.cls is r:
                            del self.funcs[fid]
                    for fid, (rr, nm) in list(self.fields.items()):
                        if rr is r:
                            del self.fields[fid]
        self.name_funcs()

    # ------------------------------------------------------------------ collection
    def tmpl_arg_str(self, node):
        args = []
        for c in kids(node):
            if c.get('kind') != 'TemplateArgument':
                continue
            if 'type' in c:
                args.append(c['type'].get('qualType'))
            elif 'value' in c:
                v = c['value']
                args.append(v)
            elif c.get('inner'):
                # pack
                for p in kids(c):
                    if 'type' in p:
                        args.append(p['type'].get('qualType'))
                    elif 'value' in p:
                        args.append(p['value'])
            else:
                args.append('?')
        return args

    def collect(self, n, scope, cls=None):
        k = n.get('kind')
        if k in ('TranslationUnitDecl', 'LinkageSpecDecl'):
            for c in kids(n):
                self.collect(c, scope)
        elif k == 'NamespaceDecl':
            sc = scope + [n.get('name', '')] if n.get('name') else scope
            self.ns_ids[n['id']] = '::'.join(sc)
            if n.get('originalNamespace'):
                self.ns_ids.setdefault(n['originalNamespace'].get('id'), '::'.join(sc))
            for c in kids(n):
                self.collect(c, sc)
        elif k in ('CXXRecordDecl', 'ClassTemplateSpecializationDecl'):
            if not n.get('completeDefinition') or n.get('isImplicit'):
                return
            if not n.get('inner'):
                return
            name = n.get('name') or '__anon_%s' % n['id'][-6:]
            if k == 'ClassTemplateSpecializationDecl':
                args = self.tmpl_arg_str(n)
                fixed = []
                for a, c in zip(args, [c for c in kids(n) if c.get('kind') == 'TemplateArgument']):
                    if isinstance(a, bool):
                        a = 'true' if a else 'false'
                    fixed.append(str(a))
                name = '%s<%s>' % (name, ', '.join(fixed))
            qual = self.scope_qual(n, scope, name)
            tq = self.this_type_name(n)
            if tq:
                qual = tq
            self.collect_record(n, qual)
        elif k == 'ClassTemplateDecl':
            for c in kids(n):
                if c.get('kind') == 'ClassTemplateSpecializationDecl' and c.get('inner'):
                    self.collect(c, scope)
        elif k == 'FunctionTemplateDecl':
            fs = [c for c in kids(n) if c.get('kind') in ('FunctionDecl', 'CXXMethodDecl', 'CXXConstructorDecl')]
            for c in fs[1:]:
                self.collect(c, scope, cls)
        elif k in ('FunctionDecl', 'CXXMethodDecl', 'CXXConstructorDecl', 'CXXDestructorDecl', 'CXXConversionDecl'):
            self.collect_func(n, scope, cls)
        elif k == 'EnumDecl':
            self.collect_enum(n, scope)
        elif k in ('TypeAliasDecl', 'TypedefDecl'):
            q = '::'.join(scope + [n['name']])
            ty = n.get('type', {})
            und = ty.get('desugaredQualType') or ty.get('qualType')
            self.te.typedefs.setdefault(q, und)
            parts = q.split('::')
            for i in range(1, len(parts) - 1):
                self.te.typedefs.setdefault('::'.join(parts[i:]), und)
        elif k == 'VarDecl':
            q = self.scope_qual(n, scope, n.get('name'))
            prev = n.get('previousDecl')
            cname = sanitize(q)
            if prev and prev in self.globals:
                cname = self.globals[prev][0]
                if any(True for c in kids(n)):
                    self.globals[prev] = (cname, n)
            self.globals[n['id']] = (cname, n)
        else:
            pass

    def this_type_name(self, rec):
        """qualified name of a class as clang prints it, taken from a `this` expression inside it"""
        stack = [c for c in kids(rec) if c.get('kind') in ('CXXMethodDecl', 'CXXConstructorDecl', 'CXXDestructorDecl')]
        while stack:
            x = stack.pop()
            if x.get('kind') == 'CXXThisExpr':
                s = qt(x).strip()
                s = re.sub(r'\s*\*$', '', s)
                s = re.sub(r'^const\s+', '', s)
                return s
            if x.get('kind') in ('CXXRecordDecl', 'LambdaExpr'):
                continue
            stack.extend(kids(x))
        return None

    def scope_qual(self, n, scope, name):
        p = n.get('parentDeclContextId')
        if p and p in self.records:
            return self.records[p].qual + '::' + name
        if p and p in self.ns_ids:
            return self.ns_ids[p] + '::' + name
        return '::'.join(scope + [name])

    ns_ids = {}

    def collect_enum(self, n, scope):
        qual = self.scope_qual(n, scope, n.get('name', 'anon'))
        under = n.get('fixedUnderlyingType', {}).get('qualType', 'int')
        self.enums[n['id']] = (qual, n)
        self.te.enums[qual] = under
        for c in kids(n):
            if c.get('kind') == 'EnumConstantDecl':
                self.enum_consts[c['id']] = sanitize(qual) + '_' + c['name']

    def collect_record(self, n, qual):
        if n['id'] in self.records:
            return
        r = Record(n, qual)
        r.cname = self.cfg.get('record_names', {}).get(qual, r.cname)
        self.te.record_names[qual] = r.cname
        parts = qual.split('::')
        for i in range(1, len(parts)):
            suf = '::'.join(parts[i:])
            if '<' in '::'.join(parts[:i]):
                break
            self.te.record_alias.setdefault(suf, qual)
        self.records[n['id']] = r
        self.rec_by_qual[qual] = r
        scope = qual.split('::') if False else [qual]
        for c in kids(n):
            k = c.get('kind')
            if k == 'FieldDecl':
                r.fields.append((c.get('name') or '__f%d' % len(r.fields), None, c))
                self.fields[c['id']] = (r, r.fields[-1][0])
            elif k in ('CXXRecordDecl', 'ClassTemplateSpecializationDecl', 'ClassTemplateDecl', 'EnumDecl',
                       'TypeAliasDecl', 'TypedefDecl', 'FunctionTemplateDecl', 'VarDecl'):
                self.collect(c, scope, r)
            elif k in ('CXXMethodDecl', 'CXXConstructorDecl', 'CXXDestructorDecl', 'CXXConversionDecl'):
                self.collect_func(c, scope, r)
        for b in n.get('bases', []):
            r.bases.append(b['type'].get('desugaredQualType') or b['type']['qualType'])

    def collect_func(self, n, scope, cls):
        if n['id'] in self.funcs:
            # the same declaration dumped again (specialisations of a member template are listed under every
            # redeclaration of the template, with the body only once): keep the first, take the body if it is new
            self.funcs[n['id']].absorb(n)
            return
        prev = n.get('previousDecl')
        if prev and prev in self.funcs:
            f = self.funcs[prev]
            f.absorb(n)
            self.funcs[n['id']] = f
            return
        if cls is None:
            p = n.get('parentDeclContextId')
            if p in self.records:
                cls = self.records[p]
        name = n.get('name', '')
        if cls is not None:
            qual = cls.qual + '::' + name
        else:
            qual = '::'.join(scope + [name])
        f = Func(n, qual, cls, self)
        self.funcs[n['id']] = f

    # ------------------------------------------------------------------ naming
    def special_kind(self, f):
        """copy/move/default for ctors and operator= of class cls"""
        ps = f.params()
        if f.is_ctor and len(ps) == 0:
            return 'default'
        if len(ps) == 1 and f.cls is not None:
            t = self.te.parse(qt(ps[0]))
            if t.is_ref() and t.to.is_record() and t.to.name == f.cls.qual:
                return 'move' if t.rref else 'copy'
        return None

    def sig_suffix(self, ptypes):
        parts = []
        for p in ptypes:
            try:
                t = self.te.parse(str(p))
                s = self.short_type(t)
            except Exception:
                s = sanitize(str(p).replace('const ', '').replace(' const', ''))
            parts.append(s)
        return '_'.join(parts) if parts else 'void'

    def short_type(self, t):
        if t.kind == 'record':
            return self.te.record_cname(t.name)
        if t.kind in ('builtin', 'enum'):
            return sanitize(t.name)
        if t.kind == 'ptr':
            return self.short_type(t.to) + '_ptr'
        if t.kind == 'ref':
            return self.short_type(t.to) + ('_rref' if t.rref else '_ref')
        if t.kind == 'array':
            return self.short_type(t.to) + '_arr'
        return 'fn'

    def base_cname(self, f):
        name = f.name
        if f.is_ctor:
            sk = self.special_kind(f)
            base = 'ctor_' + sk if sk else 'ctor'
        elif f.is_dtor:
            base = 'dtor'
        elif name == 'operator=':
            sk = self.special_kind(f)
            base = 'assign_' + sk if sk else 'op_assign'
        elif name in OPNAMES:
            base = OPNAMES[name]
            if name in ('operator++', 'operator--') and len(f.params()) == 1:
                base = 'op_post' + base[3:]
            if name in ('operator*', 'operator-') and len(f.params()) == 0 and f.is_method:
                base = {'operator*': 'op_deref', 'operator-': 'op_neg'}[name]
        elif name.startswith('operator '):
            base = 'op_conv_' + sanitize(name[9:])
        else:
            base = sanitize(name)
        if f.tmpl_args:
            a = self.tmpl_arg_str(f.node)
            a = [re.sub(r'\(lambda at [^)]*?([^/:)]+):(\d+):(\d+)\)', lambda m: 'lambda_%s_L%s' % (re.sub(r'\W', '_', m.group(1)), m.group(2)), str(x)) for x in a]
            base += '_T_' + self.sig_suffix([str(x) for x in a])
        prefix = (f.cls.cname + '__') if f.cls is not None else ''
        if f.cls is None:
            prefix = sanitize('::'.join(f.qual.split('::')[:-1]))
            prefix = prefix + '__' if prefix else ''
        return prefix + base

    def name_funcs(self):
        groups = {}
        seen = set()
        for f in self.funcs.values():
            if id(f) in seen:
                continue
            seen.add(id(f))
            groups.setdefault(self.base_cname(f), []).append(f)
        for base, fs in groups.items():
            if len(fs) == 1:
                fs[0].cname = base
                continue
            # const / non-const pair
            for f in fs:
                ps = [qt(p) for p in f.params()]
                f.cname = base + '__' + self.sig_suffix(ps) + ('_const' if f.is_const else '')
            names = [f.cname for f in fs]
            if len(set(names)) != len(names):
                for i, f in enumerate(fs):
                    f.cname += '_%d' % i
        self.func_by_cname = {}
        seen = set()
        for f in self.funcs.values():
            if id(f) not in seen:
                seen.add(id(f))
                self.func_by_cname[f.cname] = f

    # ------------------------------------------------------------------ type helpers
    def ty(self, n):
        return self.te.parse(qt(n))

    def rec_of(self, t):
        """Record for a record type, or None if external"""
        if t.kind != 'record':
            return None
        if t.name.startswith('(lambda at'):
            r = self.lambda_recs.get((self.te.lambda_ctx, t.name))
            if r is not None:
                return r
        return self.rec_by_qual.get(t.name) or self.rec_by_qual.get(self.te.record_alias.get(t.name, ''))

    def is_trivial_class(self, t):
        """class values of this type are plain C struct values (copy = assignment, no dtor)"""
        r = self.rec_of(t)
        if r is not None:
            return r.trivially_copyable() and r.trivial_dtor()
        return t.name in self.trivial_ext

    def nontrivial_dtor(self, t):
        if t.kind == 'array':
            return self.nontrivial_dtor(t.to)
        if t.kind != 'record':
            return False
        r = self.rec_of(t)
        if r is not None:
            return not r.trivial_dtor()
        return t.name not in self.trivial_ext

    def ctype(self, t, decl=''):
        if t.kind == 'ref':
            return self.te.c(T('ptr', to=t.to), decl)
        return self.te.c(t, decl)

    def ext_record_cname(self, t):
        return self.te.record_cname(t.name)
