"""Type-string handling for cxxlower: parse clang qualType strings into a small type tree
and print C types.  Only the shapes that occur in the lowered tulz code are supported; anything
else raises LowerError (=> exit 2 of the run, never a verdict)."""
import re


class LowerError(Exception):
    pass


BUILTIN = {
    'void': 'void', 'bool': '_Bool', 'char': 'char', 'signed char': 'signed char',
    'unsigned char': 'unsigned char', 'short': 'short', 'unsigned short': 'unsigned short',
    'int': 'int', 'unsigned int': 'unsigned int', 'unsigned': 'unsigned int', 'long': 'long',
    'unsigned long': 'unsigned long', 'long long': 'long long',
    'unsigned long long': 'unsigned long long', 'float': 'float', 'double': 'double',
    'long double': 'long double',
    'size_t': 'size_t', 'ssize_t': 'ssize_t', 'std::size_t': 'size_t', 'ptrdiff_t': 'ptrdiff_t',
    'std::ptrdiff_t': 'ptrdiff_t',
    'int8_t': 'int8_t', 'int16_t': 'int16_t', 'int32_t': 'int32_t', 'int64_t': 'int64_t',
    'uint8_t': 'uint8_t', 'uint16_t': 'uint16_t', 'uint32_t': 'uint32_t', 'uint64_t': 'uint64_t',
    'std::nullptr_t': 'void *', 'nullptr_t': 'void *', '__int128': '__int128',
}
LITSUF = {'unsigned long': 'UL', 'long': 'L', 'unsigned int': 'U', 'long long': 'LL',
          'unsigned long long': 'ULL', 'size_t': 'UL', 'ssize_t': 'L'}


class T:
    """kind: builtin|record|enum|ptr|ref|array|func ; name for builtin/record/enum;
    to for ptr/ref/array; n for array; rref for ref"""
    __slots__ = ('kind', 'name', 'to', 'n', 'rref', 'const', 'ret', 'params')

    def __init__(self, kind, name=None, to=None, n=None, rref=False, const=False):
        self.kind, self.name, self.to, self.n, self.rref, self.const = kind, name, to, n, rref, const
        self.ret = None
        self.params = None

    def __repr__(self):
        if self.kind in ('builtin', 'record', 'enum'):
            return ('const ' if self.const else '') + self.name
        if self.kind == 'ptr':
            return repr(self.to) + ' *'
        if self.kind == 'ref':
            return repr(self.to) + (' &&' if self.rref else ' &')
        if self.kind == 'array':
            return '%r[%s]' % (self.to, self.n)
        return 'func'

    def is_ref(self): return self.kind == 'ref'
    def is_record(self): return self.kind == 'record'
    def is_scalar(self): return self.kind in ('builtin', 'enum', 'ptr')

    def strip_ref(self):
        return self.to if self.kind == 'ref' else self


def split_top(s, sep=','):
    out, depth, cur = [], 0, ''
    for ch in s:
        if ch in '<([':
            depth += 1
        elif ch in '>)]':
            depth -= 1
        if ch == sep and depth == 0:
            out.append(cur.strip())
            cur = ''
        else:
            cur += ch
    if cur.strip():
        out.append(cur.strip())
    return out


def sanitize(name):
    s = name
    s = s.replace('&&', ' rref ').replace('&', ' ref ').replace('*', ' ptr ')
    s = s.replace('::', '_')
    s = re.sub(r'[^A-Za-z0-9_]+', '_', s)
    s = re.sub(r'_+', '_', s).strip('_')
    return s


class TypeEnv:
    def __init__(self):
        self.typedefs = {}      # name -> type string
        self.enums = {}         # qualified enum name -> underlying C type
        self.record_alias = {}  # printed record name -> canonical qualified name

    def parse(self, s):
        s = s.strip()
        # drop a trailing noexcept(...) clause of a function type
        i = s.rfind(' noexcept(')
        if i > 0 and s.endswith(')'):
            depth = 0
            ok = True
            for ch in s[i + 9:]:
                if ch == '(':
                    depth += 1
                elif ch == ')':
                    depth -= 1
            if depth == 0:
                s = s[:i]
        return self._parse(s)

    def _strip_cv(self, s):
        const = False
        changed = True
        while changed:
            changed = False
            for kw in ('const ', 'volatile ', 'struct ', 'class ', 'enum ', 'typename '):
                if s.startswith(kw):
                    s = s[len(kw):].strip()
                    const = const or kw == 'const '
                    changed = True
            for kw in (' const', ' volatile', ' __restrict', ' noexcept'):
                if s.endswith(kw):
                    s = s[:-len(kw)].strip()
                    const = const or kw == ' const'
                    changed = True
        return s, const

    def _parse(self, s):
        s = s.strip()
        s, const = self._strip_cv(s)
        s = s.strip()
        # function pointer / reference to function:  R (*)(A, B)   R (&)(A)
        m = re.match(r'^(.*?)\s*\(\s*(\*|&|&&|\*\s*(?:const\s*)?&|\*\s*(?:const\s*)?&&|\*\s*const)\s*\)\s*\((.*)\)(\s*(const|noexcept(\(true\))?))*$', s)
        if m and self._balanced(m.group(1)) and self._balanced(m.group(3)):
            t = T('func')
            t.ret = self._parse(m.group(1))
            t.params = [self._parse(a) for a in split_top(m.group(3))] if m.group(3).strip() not in ('', 'void') else []
            d = m.group(2).replace('const', '').replace(' ', '')
            if d in ('*',):
                return T('ptr', to=t)
            if d in ('&', '&&'):
                return T('ref', to=t, rref=(d == '&&'))
            return T('ref', to=T('ptr', to=t), rref=d.endswith('&&'))
        m = re.match(r'^(.*?)\s*\((\*|&|&&)\)\s*\[(\d*)\]$', s)
        if m and self._balanced(m.group(1)):
            arr = T('array', to=self._parse(m.group(1)), n=m.group(3))
            return T('ptr', to=arr) if m.group(2) == '*' else T('ref', to=arr, rref=(m.group(2) == '&&'))
        if s.endswith('&&'):
            return T('ref', to=self._parse(s[:-2]), rref=True)
        if s.endswith('&'):
            return T('ref', to=self._parse(s[:-1]))
        if s.endswith('*'):
            return T('ptr', to=self._parse(s[:-1]), const=const)
        m = re.match(r'^(.*)\[(\d*)\]$', s)
        if m and self._balanced(m.group(1)):
            return T('array', to=self._parse(m.group(1)), n=m.group(2))
        # plain function type  R (A, B)
        m = re.match(r'^(.*?)\s*\((.*)\)(\s*(const|noexcept(\(true\))?))*$', s)
        if m and self._balanced(m.group(1)) and not s.startswith('(lambda'):
            t = T('func')
            t.ret = self._parse(m.group(1))
            t.params = [self._parse(a) for a in split_top(m.group(2))] if m.group(2).strip() not in ('', 'void') else []
            return t
        m = re.match(r'^(?:std::)?enable_if_t<(.*)>$', s)
        if m:      # an instantiated declaration exists only if the condition held: the type is the second argument
            args = split_top(m.group(1))
            return self._parse(args[1] if len(args) > 1 else 'void')
        if s in BUILTIN:
            return T('builtin', BUILTIN[s], const=const)
        if s in self.typedefs:
            t = self._parse(self.typedefs[s])
            return t
        if s in self.enums:
            return T('enum', s, const=const)
        s2 = self.record_alias.get(s, s)
        if s2 in self.enums:
            return T('enum', s2, const=const)
        return T('record', s2, const=const)

    @staticmethod
    def _balanced(s):
        d = 0
        for ch in s:
            if ch in '<([':
                d += 1
            elif ch in '>)]':
                d -= 1
                if d < 0:
                    return False
        return d == 0

    # ---- C printing
    def c(self, t, decl=''):
        """C declaration of `decl` with type t"""
        if t.kind == 'builtin':
            return (t.name + ' ' + decl).strip()
        if t.kind == 'enum':
            return (sanitize(t.name) + ' ' + decl).strip()
        if t.kind == 'record':
            return ('struct ' + self.record_cname(t.name) + ' ' + decl).strip()
        if t.kind in ('ptr', 'ref'):
            if t.to.kind == 'func':
                ps = ', '.join(self.c(self.param_type(p)) for p in t.to.params) or 'void'
                return self.c(self.ret_type(t.to.ret), '(*%s)(%s)' % (decl, ps))
            if t.to.kind == 'array':
                return self.c(t.to.to, '(*%s)[%s]' % (decl, t.to.n))
            return self.c(t.to, '*' + decl)
        if t.kind == 'array':
            return self.c(t.to, '%s[%s]' % (decl, t.n))
        raise LowerError('cannot print type %r' % (t,))

    def ret_type(self, t):
        return t

    def param_type(self, t):
        return t

    record_names = {}
    CANON = {'size_t': 'unsigned long', 'ssize_t': 'long', 'ptrdiff_t': 'long', 'int64_t': 'long', 'uint64_t': 'unsigned long',
             'int32_t': 'int', 'uint32_t': 'unsigned int', 'uint8_t': 'unsigned char', 'int8_t': 'signed char',
             'int16_t': 'short', 'uint16_t': 'unsigned short'}

    def canon(self, t):
        if t.kind == 'builtin':
            return self.CANON.get(t.name, t.name)
        if t.kind in ('record', 'enum'):
            return t.name
        if t.kind == 'ptr':
            return self.canon(t.to) + '*'
        if t.kind == 'ref':
            return self.canon(t.to) + ('&&' if t.rref else '&')
        if t.kind == 'array':
            return '%s[%s]' % (self.canon(t.to), t.n)
        return '%s(%s)' % (self.canon(t.ret), ','.join(self.canon(p) for p in t.params))

    lambda_ctx = None
    lambda_names = {}

    def record_cname(self, name):
        if name.startswith('(lambda at'):
            c = self.lambda_names.get((self.lambda_ctx, name))
            if c:
                return c
        return self.record_names.get(name) or sanitize(name)
