"""Translation-unit emission for cxxlower: signatures, constructors/destructors, records, driver."""
import re
import os
import subprocess
import hashlib
from cxxtypes import T, LowerError, sanitize
from cxxlower import kids, qt, Lowerer, Func, Record, load_ast_stream
from cxxstmt import Stmts, ind
from cxxbody import is_glvalue, strip_casts


class Emitter:
    def __init__(self, lw, contracts=None):
        self.lw = lw
        lw.late_records = []
        lw.lambda_fns = []
        lw.used_globals = set()
        lw.param_names = {}
        lw.access_sites = []
        lw.node_by_id = {}
        self.contracts = contracts or {}
        self.twins = {}
        self.mutable_globals = []
        self.done = {}       # cname -> list of lines
        self.protos = {}
        self.order = []
        self.src_hash = {}
        self.func_loc = {}

    # ---------------------------------------------------------------- signatures
    def signature(self, f, ctx=None):
        lw = self.lw
        sig = lw.te.parse(f.sig)
        rt = sig.ret if sig.kind == 'func' else T('builtin', 'void')
        if f.is_ctor or f.is_dtor:
            rt = T('builtin', 'void')
        ps = []
        if f.is_method:
            ps.append('struct %s *self' % f.cls.cname)
        locals_ = []
        as_locals = any(re.fullmatch(p, f.cname) for p in lw.cfg.get('params_as_locals', []))
        for p in f.params():
            t = lw.te.parse(qt(p))
            name = p.get('name') or '__p%d' % len(ps)
            lw.param_names[p['id']] = name
            if t.is_ref():
                ps.append(lw.ctype(t, name))
            elif t.is_record() and not lw.is_trivial_class(t):
                ps.append(lw.ctype(T('ptr', to=t), name))
                if ctx is not None:
                    ctx.byptr_params.add(p['id'])
            elif as_locals:
                ps.append(lw.ctype(t, name + '__in'))
                locals_.append('%s = %s__in;' % (lw.ctype(t, name), name))
            else:
                ps.append(lw.ctype(t, name))
        if rt.is_record():
            ps.append(lw.ctype(T('ptr', to=rt), '__ret'))
            crt = 'void'
        elif rt.is_ref():
            crt = lw.ctype(rt)
        else:
            crt = lw.ctype(rt)
        return crt, '%s(%s)' % (f.cname, ', '.join(ps) or 'void'), rt, locals_

    # ---------------------------------------------------------------- one function
    def lower_func(self, f, ctx=None):
        lw = self.lw
        if f.cname in self.done:
            return
        if not f.has_body():
            raise LowerError('function %s (%s) has no body in the AST' % (f.qual, f.cname))
        node = f.body_node
        if ctx is None:
            ctx = Stmts(lw, f)
        ctx.f = f
        lw.te.lambda_ctx = f.cname
        crt, sig, rt, locals_ = self.signature(f, ctx)
        ctx.ret_t = rt
        con = self.contracts.get(f.cname, {})
        ctx.loop_contracts = dict(con.get('loops', {}))
        if con.get('require_loop_contracts', False):
            ctx.loop_contracts['__required__'] = True
        self.done[f.cname] = None      # recursion guard
        ctx.push('func')
        body = list(locals_)
        # constructor initialisers
        if f.is_ctor:
            for ci in [c for c in kids(node) if c.get('kind') == 'CXXCtorInitializer']:
                body += self.ctor_init(ctx, f, ci)
        comp = [c for c in kids(node) if c.get('kind') == 'CompoundStmt'][0]
        inner = ctx.s_CompoundStmt(comp, 'block')
        body += inner
        if f.is_dtor:
            body += self.member_dtors(ctx, f)
        ctx.pop()
        lines = []
        b = node.get('loc', {})
        file_ = b.get('file') or b.get('includedFrom', {}).get('file')
        lines.append('/* %s  [%s] */' % (f.qual, f.sig))
        lines.append('%s %s' % (crt, sig))
        for key in ('requires_local', 'requires', 'assigns', 'assigns_local', 'frees', 'ensures', 'ensures_local'):
            for c in con.get(key, []):
                lines.append('__CPROVER_%s(%s)' % (key.replace('_local', ''), c))
        lines += ['{'] + ind(body) + ['}', '']
        if f.cname in lw.cfg.get('rec_twin', []):
            # the contract that stands in for (mutually) recursive calls: same clauses without the local shape
            # (requires_local: shape of the enforced object; ensures_local / assigns_local: the stronger statement
            # proved for the enforced node, about memory the caller's proof never dereferences; the twin's clauses
            # are a subset of what is enforced, so the induction hypothesis is implied by the induction step;
            # ensures_twin: a clause of the twin that the enforced function proves case by case, as ensures_local clauses
            # guarded by the harness's case ghost, the cases being exhaustive)
            tw = ['%s %s' % (crt, sig.replace(f.cname + '(', f.cname + '__rec(', 1))]
            for key in ('requires', 'assigns', 'frees', 'ensures', 'ensures_twin'):
                for c in con.get(key, []):
                    tw.append('__CPROVER_%s(%s)' % (key.replace('_twin', ''), c))
            self.twins[f.cname] = '\n'.join(tw) + ';'
        unused = set(k for k in con.get('loops', {}) if isinstance(k, int)) - ctx.used_loops
        if unused:
            raise LowerError('%s: loop contract for non-existent loop ordinal(s) %s' % (f.cname, sorted(unused)))
        self.done[f.cname] = lines
        self.protos[f.cname] = '%s %s;' % (crt, sig)
        self.order.append(f.cname)
        self.src_hash[f.cname] = hashlib.sha256('\n'.join(lines).encode()).hexdigest()[:16]
        self.func_loc[f.cname] = (f.qual, self.decl_file(node), node.get('loc', {}).get('line') or node.get('range', {}).get('begin', {}).get('line'))
        ctx.calls.discard(f.cname)
        return ctx

    def decl_file(self, node):
        loc = node.get('loc', {})
        return loc.get('file') or loc.get('expansionLoc', {}).get('file') or node.get('__file') or loc.get('includedFrom', {}).get('file') or ''

    def ctor_init(self, ctx, f, ci):
        lw = self.lw
        out = []
        ks = kids(ci)
        e = ks[0] if ks else None
        if 'anyInit' in ci:
            fd = ci['anyInit']
            fi = lw.fields.get(fd['id'])
            if fi is None:
                raise LowerError('%s: initialiser for unknown field %s' % (f.cname, fd.get('name')))
            rec, fname = fi
            fnode = [x for x in rec.fields if x[2]['id'] == fd['id']][0][2]
            if e is None:
                return out
            def go():
                ctx.init_field('self->%s' % fname, fnode, e)
            pre, _, post = ctx.full(go)
            return pre + post
        if 'baseInit' in ci:
            bt = lw.te.parse(ci['baseInit'].get('desugaredQualType') or ci['baseInit']['qualType'])
            def go():
                ctx.init_into('&self->__base_%s' % sanitize(re.sub(r'<.*>$', '', bt.name).split('::')[-1]), e)
            pre, _, post = ctx.full(go)
            return pre + post
        if 'delegatingInit' in ci:
            def go():
                ctx.init_into('self', e)
            pre, _, post = ctx.full(go)
            return pre + post
        raise LowerError('%s: constructor initialiser kind' % f.cname)

    def member_dtors(self, ctx, f):
        lw = self.lw
        out = []
        for (fname, _, fnode) in reversed(f.cls.fields):
            ft = lw.te.parse(qt(fnode))
            if lw.nontrivial_dtor(ft):
                out.append(ctx.dtor_stmt(ft, '&self->%s' % fname))
        for b in reversed(f.cls.bases):
            bt = lw.te.parse(b)
            if lw.nontrivial_dtor(bt):
                out.append(ctx.dtor_stmt(bt, '&self->__base_%s' % sanitize(re.sub(r'<.*>$', '', bt.name).split('::')[-1])))
        return out

    # ---------------------------------------------------------------- reachability
    def lower_roots(self, roots):
        lw = self.lw
        work = []
        for r in roots:
            fs = [f for f in lw.all_funcs() if (f.cname == r or f.qual == r or re.fullmatch(r, f.cname))]
            if not fs:
                raise LowerError('root %s matches no function; known: see names table' % r)
            for f in fs:
                if not f.has_body() and f.cname != r and f.qual != r:
                    lw.warnings.append('root pattern %s: %s is declared but never defined/instantiated; skipped' % (r, f.cname))
                    self.done.setdefault(f.cname, [])
                    continue
                work.append(f)
        seen = set()
        self.called_from = {}
        while work or lw.lambda_fns:
            if lw.lambda_fns:
                fn, sub = lw.lambda_fns.pop(0)
                ctx = self.lower_func(fn, sub)
                if ctx:
                    for c in ctx.calls:
                        g = lw.func_by_cname.get(c)
                        if g is not None and g.cname not in self.done:
                            work.append(g)
                            self.called_from.setdefault(g.cname, fn.cname)
                continue
            f = work.pop()
            if f.cname in self.done:
                continue
            if f.cls is not None and f.cls.is_lambda:
                # lowered when the enclosing function reaches the lambda expression (captures are known only there)
                self.pending_closures = getattr(self, 'pending_closures', set()) | {f.cname}
                continue
            if any(re.fullmatch(p, f.cname) for p in lw.cfg.get('stub_functions', [])):
                # replaced by a hand-written spec model of the same name (listed in the evidence)
                self.done[f.cname] = []
                crt, sig, rt, _ = self.signature(f)
                self.protos[f.cname] = '%s %s;' % (crt, sig)
                continue
            if not f.has_body():
                if f.node.get('explicitlyDeleted'):
                    self.done[f.cname] = []
                    continue
                if f.pure or f.virtual:
                    self.done[f.cname] = []
                    crt, sig, rt, _ = self.signature(f)
                    self.protos[f.cname] = '%s %s;' % (crt, sig)
                    continue
                # implicit trivial special member: no code
                if f.node.get('isImplicit') or f.node.get('explicitlyDefaulted'):
                    self.done[f.cname] = []
                    crt, sig, rt, _ = self.signature(f)
                    self.protos[f.cname] = '%s %s;' % (crt, sig)
                    lw.warnings.append('no body for defaulted/implicit %s' % f.cname)
                    continue
                raise LowerError('reachable function %s (%s) has no body in the AST (first called from %s)' % (f.qual, f.cname, self.called_from.get(f.cname, 'a root')))
            ctx = self.lower_func(f)
            for c in ctx.calls:
                g = lw.func_by_cname.get(c)
                if g is not None and g.cname not in self.done:
                    work.append(g)
                    self.called_from.setdefault(g.cname, f.cname)

    # ---------------------------------------------------------------- records / enums / globals
    def check_closures(self):
        missing = [c for c in getattr(self, 'pending_closures', set()) if not self.done.get(c)]
        if missing:
            raise LowerError('closure bodies called but never created by a lowered function: %s' % missing)

    def emit_enums(self):
        out = []
        for (qual, node) in self.lw.enums.values():
            under = self.lw.te.enums.get(qual, 'int')
            ut = self.lw.te.parse(under)
            out.append('typedef %s %s;' % (self.lw.ctype(ut), sanitize(qual)))
            val = -1
            items = []
            for c in kids(node):
                if c.get('kind') != 'EnumConstantDecl':
                    continue
                ks = kids(c)
                if ks:
                    v = self.const_value(ks[0])
                    if v is None:
                        raise LowerError('enum constant value of %s::%s' % (qual, c['name']))
                    val = v
                else:
                    val += 1
                items.append('%s_%s = %d' % (sanitize(qual), c['name'], val))
            if items:
                out.append('enum { %s };' % ', '.join(items))
        return out

    def const_value(self, n):
        if 'value' in n and n.get('kind') in ('ConstantExpr', 'IntegerLiteral'):
            try:
                return int(n['value'])
            except ValueError:
                return None
        for c in kids(n):
            v = self.const_value(c)
            if v is not None:
                return v
        return None

    def record_deps(self, r):
        deps = []
        lw = self.lw
        for b in r.bases:
            br = lw.rec_by_qual.get(lw.te.parse(b).name)
            if br is not None:
                deps.append(br)
        for (fname, _, fnode) in r.fields:
            t = lw.te.parse(qt(fnode))
            while t.kind == 'array':
                t = t.to
            if t.kind == 'record':
                d = lw.rec_of(t)
                if d is not None:
                    deps.append(d)
        return deps

    def emit_records(self):
        lw = self.lw
        skip = lw.cfg.get('skip_records', [])
        only = lw.cfg.get('only_records')
        recs = []
        seen = set()
        for r in list(lw.records.values()):
            if id(r) in seen:
                continue
            seen.add(id(r))
            if any(re.search(p, r.qual) for p in skip):
                continue
            if only is not None and not r.is_lambda and not any(re.search(p, r.qual) for p in only):
                continue
            recs.append(r)
        out, emitted = [], set()
        # forward declarations
        for r in recs:
            out.append('struct %s;' % r.cname)

        def emit(r, stack=()):
            if r.cname in emitted or r not in recs:
                return
            if r in stack:
                raise LowerError('record cycle at %s' % r.qual)
            for d in self.record_deps(r):
                emit(d, stack + (r,))
            emitted.add(r.cname)
            lines = ['/* %s */' % r.qual, '%s %s {' % ('union' if r.is_union else 'struct', r.cname)]
            for b in r.bases:
                bt = lw.te.parse(b)
                lines.append('  %s;' % lw.ctype(bt, '__base_' + sanitize(re.sub(r'<.*>$', '', bt.name).split('::')[-1])))
            if self.needs_vptr(r):
                lines.append('  int __dyn_type;')
            for (fname, _, fnode) in r.fields:
                t = lw.te.parse(qt(fnode))
                lines.append('  %s;' % lw.ctype(t, fname))
            if len(lines) == 2:
                lines.append('  char __empty;')
            lines.append('};')
            out.extend(lines)
        for r in recs:
            emit(r)
        for spec in lw.cfg.get('atomic_required', []):
            rc, _, fn = spec.partition('.')
            val = None
            for r in recs:
                if r.cname == rc:
                    for (fname, _, fnode) in r.fields:
                        if fname == fn:
                            val = 1 if 'atomic' in qt(fnode) else 0
            if val is None:
                raise LowerError('atomic_required: field %s not found' % spec)
            out.append('#define ATOMIC_%s_%s %d   /* declared type of the field is%s an atomic type */' % (rc, fn, val, '' if val else ' NOT'))
        return out

    def needs_vptr(self, r):
        if r.bases:
            return False
        return bool(r.dd.get('isPolymorphic'))

    def emit_globals(self):
        lw = self.lw
        out = []
        done = set()
        for gid, (cname, node) in lw.globals.items():
            if cname not in lw.used_globals or cname in done:
                continue
            # prefer the definition (with initialiser)
            best = node
            for gid2, (c2, n2) in lw.globals.items():
                if c2 == cname and [c for c in kids(n2) if 'valueCategory' in c or c.get('kind') == 'InitListExpr']:
                    best = n2
            done.add(cname)
            t = lw.te.parse(qt(best))
            init = [c for c in kids(best) if 'valueCategory' in c or c.get('kind') == 'InitListExpr']
            if not init:
                out.append('extern %s;' % lw.ctype(t, cname))
                continue
            if cname in lw.cfg.get('global_values', {}):
                out.append('const %s = %s;' % (lw.ctype(t, cname), lw.cfg['global_values'][cname]))
                continue
            ctx = Stmts(lw, Func({'id': 'g', 'kind': 'FunctionDecl', 'name': cname, 'type': {'qualType': 'void ()'}}, cname, None, lw))
            ctx.pre, ctx.post = [], []
            s = self.static_init(ctx, init[0])
            if ctx.pre:
                raise LowerError('global %s needs dynamic initialisation' % cname)
            const = 'const ' if (qt(best).strip().startswith('const ') and not lw.cfg.get('abstract_tables')) else ''
            if not qt(best).strip().startswith('const ') and 'constexpr' not in str(best.get('constexpr', '')):
                # a mutable variable with static storage: an operation may find it in any state, not only the initial one
                self.mutable_globals.append(cname)
            out.append('%s%s = %s;' % (const, lw.ctype(t, cname), s))
        return out

    def static_init(self, ctx, n):
        k = n.get('kind')
        if k == 'InitListExpr':
            return '{' + ', '.join(self.static_init(ctx, c) for c in kids(n)) + '}'
        if k in ('ImplicitCastExpr', 'ConstantExpr', 'ExprWithCleanups') and self.lw.ty(n).is_record():
            return self.static_init(ctx, kids(n)[-1])
        return ctx.ex(n)

    # ---------------------------------------------------------------- whole file
    def text(self, prelude_includes, midlude_includes=()):
        out = ['/* generated by cxxlower from the clang AST of the real sources; do not edit */']
        for inc in prelude_includes:
            out.append('#include "%s"' % inc)
        out += self.emit_enums()
        recs = self.emit_records()
        out += recs
        for inc in midlude_includes:
            out.append('#include "%s"' % inc)
        out += self.emit_globals()
        for c in sorted(self.protos):
            out.append(self.protos[c])
        for c in sorted(self.twins):
            out.append('/* contract standing in for recursive calls of %s */' % c)
            out.append(self.twins[c])
        out.append('')
        for c in self.order:
            out += self.done[c]
        return '\n'.join(out) + '\n'


def index_nodes(lw, objs):
    # clang's JSON omits "file" when it equals the file of the previously printed location: replay that order
    state = {'file': None}

    def see(d):
        if not isinstance(d, dict):
            return
        for k in ('spellingLoc', 'expansionLoc'):
            if k in d:
                see(d[k])
        if 'file' in d:
            state['file'] = d['file']

    def walk(n):
        if isinstance(n, dict):
            see(n.get('loc'))
            if 'id' in n and 'kind' in n and n['kind'].endswith('Decl'):
                lw.node_by_id.setdefault(n['id'], n)
                n['__file'] = state['file']
            r = n.get('range', {})
            see(r.get('begin'))
            see(r.get('end'))
            for c in n.get('inner', []) or []:
                walk(c)
    for o in objs:
        walk(o)


def clang_ast(driver, includes, filt, defines=(), std='c++20'):
    cmd = ['clang++-14', '-std=' + std, '-fsyntax-only', '-Xclang', '-ast-dump=json']
    if filt:
        cmd += ['-Xclang', '-ast-dump-filter=' + filt]
    for i in includes:
        cmd += ['-I', i]
    for d in defines:
        cmd += ['-D' + d]
    cmd.append(driver)
    p = subprocess.run(cmd, stdout=subprocess.PIPE, stderr=subprocess.PIPE, text=True)
    return p.returncode, p.stdout, p.stderr


def lower_component(cfg, contracts):
    """cfg: dict with driver, includes, filter, roots, ... ; returns (C text, Emitter)"""
    rc, out, err = clang_ast(cfg['driver'], cfg.get('includes', []), cfg.get('filter', 'tulz'), cfg.get('defines', ()))
    nerr = len(re.findall(r'\berror:', err))
    if nerr > cfg.get('tolerated_clang_errors', 0):
        raise LowerError('clang reported %d errors:\n%s' % (nerr, err[:3000]))
    objs = load_ast_stream(out)
    if not objs:
        raise LowerError('clang produced no AST for filter %s\n%s' % (cfg.get('filter'), err[:2000]))
    lw = Lowerer(objs, cfg)
    em = Emitter(lw, contracts)
    index_nodes(lw, objs)
    lw.preregister_lambdas()
    em.lower_roots(cfg['roots'])
    em.check_closures()
    for cname in contracts:
        if cname not in em.done or em.done[cname] is None:
            raise LowerError('contract given for %s, which is not among the lowered functions' % cname)
    text = em.text(cfg.get('prelude', []), cfg.get('midlude', []))
    return text, em
