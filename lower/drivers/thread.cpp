// cxxlower driver: the real Thread.cpp and the start<T, Args...> template with a function pointer and a large closure.
#include <src/threading/Thread.cpp>
namespace tulz_verif_inst {
struct BigCallable { long payload[8]; void operator()(int &x) const; };
void plain_function(int &x);
inline void use(tulz::Thread &t, int &x, BigCallable b) {
    t.start(&plain_function, x);
    t.start(b, x);
}
}
