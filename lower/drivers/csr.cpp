// cxxlower driver: ConcurrentSubjectRouter operations for the signatures <> and <int>
#include <tulz/observer/routing/ConcurrentSubjectRouter.h>
namespace tulz_verif_inst {
inline void use(tulz::ConcurrentSubjectRouter &r, const tulz::RoutingKey &k, int v) {
    r.notify(k); r.notify(k, v); r.shrink(k); (void) r.exists(k); (void) r.depth();
    auto s0 = r.subscribe<>(k, [] {});
    auto s1 = r.subscribe<int>(k, [](int) {});
    s1->unsubscribe();
}
}
