// cxxlower driver: instantiates the real RingBuffer with the specification element type.
#include <cstdlib>
#include <initializer_list>
#include <utility>
#include <algorithm>
#include <sys/types.h>
#include "spec_elem.hpp"
#include <tulz/container/RingBuffer.h>
template class tulz::RingBuffer<Elem, true>;
template class tulz::RingBuffer<Elem, false>;
template Elem& tulz::RingBuffer<Elem, true>::emplace_back<const Elem&>(const Elem&);
template Elem& tulz::RingBuffer<Elem, true>::emplace_front<const Elem&>(const Elem&);
template Elem& tulz::RingBuffer<Elem, false>::emplace_back<const Elem&>(const Elem&);
template Elem& tulz::RingBuffer<Elem, false>::emplace_front<const Elem&>(const Elem&);
template bool tulz::RingBuffer<Elem, true>::operator==<true>(const tulz::RingBuffer<Elem, true>&) const;
template bool tulz::RingBuffer<Elem, false>::operator==<false>(const tulz::RingBuffer<Elem, false>&) const;
template class tulz::RandomAccessIndexIterator<Elem, tulz::RingBuffer<Elem, true>>;
template class tulz::RandomAccessIndexIterator<const Elem, const tulz::RingBuffer<Elem, true>>;
template class tulz::RandomAccessIndexIterator<Elem, tulz::RingBuffer<Elem, false>>;
template class tulz::RandomAccessIndexIterator<const Elem, const tulz::RingBuffer<Elem, false>>;
