// cxxlower driver: the real File.cpp (Array<byte> comes with it)
#include <src/File.cpp>
