// cxxlower driver: Subject<int>, its Subscription handle and the Observer base / EternalObserver.
#include <tulz/observer/Subject.h>
template class tulz::Subject<int>;
template class tulz::Subscription<int>;
template class tulz::Observer<int>;
template class tulz::EternalObserver<int>;
