// cxxlower driver: Observable<int> with the default equality and with an arbitrary (specification) equality.
#include <tulz/observer/Observable.h>
// specification equality: declared, never defined -> every call stays visible and its verdict is chosen by the verifier
struct EqStub { bool operator()(const int &a, const int &b) const; };
template class tulz::Observable<int>;
template class tulz::Observable<int, EqStub>;
namespace tulz_verif_inst {
inline void use(tulz::Observable<int> &o, tulz::Observable<int, EqStub> &e, int v) {
    o = v; o += v; o -= v; o *= v; o /= v; ++o; o++; --o; o--;
    e = v; e += v; e -= v; e *= v; e /= v; ++e; e++; --e; e--;
    (void) *o; (void) o.value(); (void) *e; (void) e.value();
}
}
