// cxxlower driver: Observable<int> (default equality) from the real header.
#include <tulz/observer/Observable.h>
template class tulz::Observable<int>;
namespace tulz_verif_inst {
inline void use(tulz::Observable<int> &o, int v) {
    o = v; o += v; o -= v; o *= v; o /= v; ++o; o++; --o; o--;
    o.apply([](int &x) { x = x + 1; });
    (void) *o; (void) o.value();
}
}
