// cxxlower driver: the real SubjectRouter.cpp / RoutingLevelView.cpp / RoutingKey.cpp plus the member templates
// Node::notify and Node::subscribe for the signatures <> and <int> (a temporary int: Args = int).
#include <src/observer/routing/SubjectRouter.cpp>
#include <src/observer/routing/RoutingLevelView.cpp>
#include <src/observer/routing/RoutingKey.cpp>
namespace tulz_verif_inst {
inline void use(tulz::SubjectRouter &r, const tulz::RoutingKey &k) {
    (void) r.notify(k);
    (void) r.notify(k, 5);          // Args = int
    int v = 0; (void) r.notify(k, v);   // Args = int&
    auto s0 = r.subscribe<>(k, [] {});
    auto s1 = r.subscribe<int>(k, [](int) {});
}
}
