// cxxlower driver: the real SubjectRouter.cpp / RoutingLevelView.cpp / RoutingKey.cpp plus the member templates
// Node::notify and Node::subscribe for the signatures <> and <int> (a temporary int: Args = int).
#include <src/observer/routing/SubjectRouter.cpp>
#include <src/observer/routing/RoutingLevelView.cpp>
#include <src/observer/routing/RoutingKey.cpp>
// Specification payload: a class type passed BY VALUE; every special member stays visible as a call (declared, never
// defined), so that copies and moves of the argument on its way down the tree are obligations of the proof.
struct Payload {
    int val; int state;
    Payload(); Payload(const Payload&); Payload(Payload&&) noexcept;
    Payload& operator=(const Payload&); Payload& operator=(Payload&&) noexcept;
    ~Payload();
};
namespace tulz_verif_inst {
inline void use(tulz::SubjectRouter &r, const tulz::RoutingKey &k) {
    (void) r.notify(k);
    (void) r.notify(k, 5);          // Args = int
    int v = 0; (void) r.notify(k, v);   // Args = int&
    (void) r.notify(k, Payload());      // Args = Payload (by-value class type, passed as a temporary)
    auto s0 = r.subscribe<>(k, [] {});
    auto s1 = r.subscribe<int>(k, [](int) {});
}
}
