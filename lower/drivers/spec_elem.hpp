// Specification element type: every special member stays visible as a call (declared, never defined).
#pragma once
#include <cstdint>
#include <cstddef>
struct Elem {
    uint32_t serial; uint32_t life;
    Elem(); Elem(const Elem&); Elem(Elem&&) noexcept;
    Elem& operator=(const Elem&); Elem& operator=(Elem&&) noexcept;
    ~Elem();
    bool operator==(const Elem&) const;
};
