// cxxlower driver: the real ThreadPool.cpp (with PooledThread / PooledRunnable) and Thread.cpp
#include <src/threading/ThreadPool.cpp>
