// cxxlower driver: the real Resource.cpp plus the two guards.
#include <cstdint>
#include <src/threading/rwp/Resource.cpp>
#include <tulz/threading/rwp/ReadLock.h>
#include <tulz/threading/rwp/WriteLock.h>
namespace tulz_verif_inst {
inline void use_guards(tulz::rwp::Resource &r) { { tulz::rwp::ReadLock a(r); } { tulz::rwp::WriteLock b(r); } }
}
