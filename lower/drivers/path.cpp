// cxxlower driver: the real Path.cpp and DirectoryVisitor.cpp
#include <src/Path.cpp>
#include <src/DirectoryVisitor.cpp>
