// cxxlower driver: the real LocaleInfo.cpp
#include <src/LocaleInfo.cpp>
