// cxxlower driver: instantiates the real Array with the specification element type and with bytes.
#include <cstdlib>
#include <cstdint>
#include <initializer_list>
#include <utility>
#include <algorithm>
#include <type_traits>
#include "spec_elem.hpp"
#include <tulz/container/Array.h>
template class tulz::Array<Elem>;
template class tulz::Array<uint8_t>;
template class tulz::RandomAccessIndexIterator<Elem, tulz::Array<Elem>>;
template class tulz::RandomAccessIndexIterator<const Elem, const tulz::Array<Elem>>;
