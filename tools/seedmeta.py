#!/usr/bin/env python3
"""writes seeded/<id>/meta.json and seeded/README.md from the recorded runs (tools/seedtest.sh) and the table below"""
import json, os, re
ROOT = os.path.dirname(os.path.dirname(os.path.abspath(__file__)))
SEEDS = {
 'C04-s1': ('C04', 'RingBuffer::resize: in-place (realloc) condition rewritten without modCap', 'an EMPTY buffer whose head equals the new capacity is shrunk; the head is left == capacity; shows only on a later pop_front / overwriting emplace_back'),
 'C04-s2': ('C04', 'RingBuffer move constructor rewritten with std::exchange, m_pos not transferred', 'move CONSTRUCTION from a buffer whose head is not at slot 0'),
 'C09-s1': ('C09', 'RingBuffer::resize: contiguity check rewritten without the modulo', 'empty buffer, head == new capacity, then pop_front / overwriting emplace_back reads or writes one slot past the allocation'),
 'C09-s2': ('C09', 'RingBuffer copy assignment keeps its allocation when capacities match, m_pos reset only when reallocating', 'copy ASSIGNMENT onto a buffer of equal capacity with a rotated head from a non-empty, non-full source'),
 'C14-s1': ('C14', 'Array copy assignment reuses the destination block when the source fits', 'class element type and a source strictly shorter than the destination: the tail is never destroyed'),
 'C14-s2': ('C14', 'Array::resize handles size == 0 itself and returns before m_size is updated', 'a non-empty array resized to exactly 0'),
 'C14-s3': ('C14', 'Array::resize keeps the old block when realloc returns null', 'resize(0) on glibc (realloc(p,0) frees and returns NULL)'),
 'C01-sA': ('C01', 'Resource::enqueue merges a read request into the FRONT queue entry', 'queue [Read, ..., Write] when another reader arrives (holder + R1 + W2 + R3)'),
 'C03-sB': ('C03', 'Resource::lock lets a reader join an active read phase although the queue is not empty', 'a reader holds, a writer is already parked, then a new lockRead is issued'),
 'C02-sC': ('C02', 'Resource::unlock uses notify_one when exactly one request was admitted', 'two or more parked requests of different queue entries, woken in an order different from request order'),
 'C19-sA': ('C19', 'LocaleInfo::get: memset replaced by an explicit terminator, country length guard <= sizeof(buffer)', 'a country part of exactly 64 characters'),
 'C19-sB': ('C19', 'LocaleInfo::get: country lookup uses strncmp(..., countryLen)', 'a known language plus a country part that is a (possibly empty) prefix of a table entry'),
 'C16-sC': ('C16', 'Observable::operator-- implemented through operator-= / apply()', 'a decrement on an Observable whose equality calls old and old-1 equal (tolerance comparator, bucket comparator, large double)'),
 'C20-sA': ('C20', 'Thread::start captures the callable by reference again', 'the new thread uses the callable after start() returned and the stack was reused'),
 'C08-sB': ('C08', 'ThreadPool: m_isRunning becomes std::atomic<bool> and stop() clears it without the queue mutex', 'stop() lands between a worker\'s predicate evaluation and its blocking'),
 'C05-s1': ('C05', 'Subject::notify snapshot becomes a std::vector filled with emplace_back (order no longer re-reversed)', 'two or more observers on one Subject: they are called newest-first'),
 'C05-s2': ('C05', 'Subject::unsubscribeById: remove_if replaced by a hand-written erase_after loop whose prev iterator is never advanced', 'two or more observers and an unsubscribe of one that is not the newest: the newest is destroyed instead'),
 'C05-s3': ('C05', 'Subject::unsubscribe(handle) validates only the id, not the owning subject', 'a foreign handle whose id is active in the target subject'),
 'C10-s1': ('C10', 'Subject::notify skips the id check while the number of subscriptions is unchanged', 'a callback that unsubscribes a not-yet-called neighbour AND subscribes a new observer in the same round'),
 'C10-s2': ('C10', 'Subject::notify keeps its snapshot in a reused member vector', 're-entrant notify from a callback after a membership change'),
 'C10-s3': ('C10', 'operands of the post-call check reordered: !observer->isValid() && isSubscriptionIdValid(id)', 'a callback that unsubscribes its own subscription'),
 'C15-sC': ('C15', 'ThreadPool::clear() gains an unlocked early exit on m_queue.size() == 0', 'clear() while workers are dequeuing'),
 'C06-s1': ('C06', 'Node::notify regex loop: static_cast<Args>(args)... replaced by std::forward<Args>(args)...', 'a regex / wildcard level with two or more matching sibling keys that hold a subject, a by-value class signature and an rvalue argument: the second receiver gets a moved-from value'),
 'C06-s2': ('C06', 'lookupNode: insert replaced by lower_bound + emplace_hint with the operands of key_comp swapped', 'sibling keys subscribed in non-ascending order (or re-subscribed after a shrink): the subscription lands in the next greater sibling'),
 'C07-s1': ('C07', 'PooledRunnable::run: the stopped check moved below the locked block, after the task was taken from the queue', 'stop() while the queue is non-empty and a worker is busy: a task is taken, neither run nor deleted'),
 'C07-s2': ('C07', 'ThreadPool::clear() unlocks the queue mutex around each task destructor (front / unlock / delete / lock / pop_front)', 'clear() racing with a worker that becomes idle during a task destructor: the task is run while destroyed and deleted twice'),
 'C11-s1': ('C11', 'Resource::select() no longer resets m_upperUnlockBound when the resource becomes idle', 'a first busy period in which a request queued, then idle, then a writer arriving during a delivery: the stale bound admits it at once'),
 'C11-s2': ('C11', 'ConcurrentSubjectRouter::notify gains a thread_local re-entrancy counter and delivers without locking when it is non-zero', 'a callback that throws (the counter is not restored), then a later notify from the same thread overlapping a writer'),
 'C12-s1': ('C12', 'Resource::lock fast path tests m_idCounter == 0 instead of m_queue.empty()', 'something queued and was admitted and still holds; then another reader arrives with no writer around: it parks'),
 'C12-s2': ('C12', 'Resource::enqueue looks at m_queue.front() instead of back() for a read batch to join', 'two or more readers queue behind a writer that is itself still queued: they are admitted one at a time'),
 'C13-s1': ('C13', 'Node::exists: the isLeaf() return moved in front of the matches(m_name) check', 'a pattern whose LAST level is a regex that matches no child of a parent that has children'),
 'C13-s2': ('C13', 'Node::isEmpty loops over the children and keeps only the last child\'s verdict', 'a child the pattern did not walk into, with no own subscription, a live key below it and a dead sibling that sorts last'),
 'C17-s1': ('C17', 'File::read text branch: isEOF becomes char c = fgetc(); return c == EOF', 'Mode::ReadText and a 0xFF byte in the content'),
 'C17-s2': ('C17', 'File::read: the two seek(0, Start) calls replaced by one in front of the allocation', 'Mode::ReadText with the stream not at position 0 when read()/readStr() is called'),
 'C18-s1': ('C18', 'Path::join: the "p1 ends with a separator" fast path moved in front of the "p2 is absolute" check', 'left operand ends with a separator AND right operand is absolute'),
 'C18-s2': ('C18', 'Path::listChildren: the "." / ".." filter tests only the first two characters', 'a directory entry whose name starts with two dots (filesystem clause: outside the claimed part of C18)'),
 'C19-s3': ('C19', 'LocaleInfo::get compares the language part in place with strncmp (prefix match for codes)', 'an empty or one-letter language part with a known country ("_GB", "e_GB.UTF-8"): a table answer instead of the fallback'),
 'C19-s4': ('C19', 'LocaleInfo::get: memset + memcpy of the country part replaced by strncpy (no terminator, leftovers of the language part stay)', 'a language part longer than the country part ("English_GB"): the fallback for a valid locale'),
 'C13-s3': ('C13', 'Node::shrink returns bool and the wildcard loop accumulates with removed = removed || node.shrink(...)', 'two sibling subtrees that both hold removable nodes two or more levels down: the later siblings are never shrunk'),
 'C13-s4': ('C13', 'Node::depth() skips children that are empty', 'the deepest stored key lost its subscriptions and is childless: depth() is one less than the longest key exists() reports'),
 'C06-s3': ('C06', 'Node::notify: if (levelView.isLeaf() || m_children.empty())', 'a pattern strictly deeper than a subscribed, childless key that matches up to its own depth: that key is notified'),
 'C06-s4': ('C06', 'Node::notify: a subject without subscriptions is skipped (m_subject != nullptr && m_subject->hasSubscriptions())', 'a key whose observers were all unsubscribed: the return value no longer counts it'),
 'C18-s3': ('C18', 'Path::getParentDirectory cuts after the last non-separator character (find_last_not_of)', 'a directory that ends in two or more separators: the parent of join(d, n) loses more than one separator'),
 'C18-s4': ('C18', 'Path::getWorkingDirectory uses a NAME_MAX + 1 buffer', 'a working directory path longer than 255 bytes: getcwd fails, the visitor saves an empty path and never restores'),
}
rows = []
for sid, (prop, what, needs) in SEEDS.items():
    d = os.path.join(ROOT, 'seeded', sid)
    if not os.path.isdir(d):
        continue
    run = open(os.path.join(d, 'run.txt')).read().strip() if os.path.exists(os.path.join(d, 'run.txt')) else ''
    out = open(os.path.join(d, 'check_output.txt')).read() if os.path.exists(os.path.join(d, 'check_output.txt')) else ''
    viol = re.findall(r'^VIOLATION .*$', out, re.M)
    obl = re.findall(r'^FAILED-OBLIGATION property=\S+ harness=(\S+) function=(\S+) obligation=(\S+) :: (.*?) ::', out, re.M)
    undecided = re.findall(r'^UNDECIDED.*$', out, re.M)
    m = re.search(r'check_exit=(\d+)', run)
    ce = int(m.group(1)) if m else None
    detected = ce == 1 and bool(viol)
    confirmed = any('no-failing-input-found' not in v for v in viol)
    meta = {'seed': sid, 'property_broken': prop, 'change': what, 'needs_to_manifest': needs,
            'confirmed_by_me': run, 'ran': 'tools/seedtest.sh / tools/seedcheck.sh (applies the patch in the sub-agent\'s scratch worktree, builds, runs the unedited test suite, '
            'compiles and runs the demonstration with and without the patch, then ./check %s with TULZ_REPO pointing at the patched worktree, then reverts)' % prop,
            'check_exit': ce, 'detected': detected, 'native_replay_confirmed': confirmed,
            'failed_obligations': sorted(set('%s: %s' % (o[1], o[3]) for o in obl))[:8], 'undecided': undecided[:1]}
    with open(os.path.join(d, 'meta.json'), 'w') as fh:
        json.dump(meta, fh, indent=1)
    rows.append((sid, prop, what, needs, 'caught' if detected else ('UNDECIDED (exit 2)' if ce == 2 else 'MISSED'),
                 'yes' if confirmed else 'no', '; '.join(sorted(set(o[3][:70] for o in obl))[:3])))
with open(os.path.join(ROOT, 'seeded', 'README.md'), 'w') as fh:
    fh.write('# Seeded changes\n\nEach directory holds `patch.diff`, the demonstration `demo.cpp`, `check_output.txt` (the output of the registered quick check run against the patched tree), `run.txt` and `meta.json`. All were written by sub-agents that saw only the property text and a scratch worktree; each was confirmed (builds, existing tests pass, demonstration fails with / passes without) before being kept.\n\n')
    fh.write('| seed | property | change | needs | check | native replay confirmed | obligations that fail |\n|---|---|---|---|---|---|---|\n')
    for r in rows:
        fh.write('| %s |\n' % ' | '.join(r))
print('\n'.join('%-8s %-5s %-22s replay=%s' % (r[0], r[1], r[4], r[5]) for r in rows))
