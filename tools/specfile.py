"""Parser for /verif/contracts/*.spec (component configuration, function and loop contracts, harnesses)."""
import re
import shlex


class SpecError(Exception):
    pass


def expand_for(lines):
    """'@function NAME for=T:A,B;I:X,Y' (or @harness ...) : the directive and its indented clause lines are
    repeated once per tuple with $T, $I ... substituted"""
    out = []
    i = 0
    while i < len(lines):
        l = lines[i]
        m = re.match(r'^(@function|@harness)\s+(.*?)\s+for=(\S+)\s*(.*)$', l.split(' ##')[0].rstrip())
        if not m:
            out.append(l)
            i += 1
            continue
        block = [m.group(1) + ' ' + m.group(2) + (' ' + m.group(4) if m.group(4) else '')]
        i += 1
        while i < len(lines) and (lines[i].startswith(' ') or lines[i].startswith('\t') or not lines[i].strip()) \
                and not lines[i].strip().startswith('@function') and not lines[i].strip().startswith('@harness'):
            block.append(lines[i])
            i += 1
        vars_ = []
        for part in m.group(3).split(';'):
            k, _, vs = part.partition(':')
            vars_.append((k, vs.split(',')))
        n = len(vars_[0][1])
        for j in range(n):
            for b in block:
                t = b
                for k, vs in sorted(vars_, key=lambda kv: -len(kv[0])):
                    t = t.replace('$' + k, vs[j])
                out.append(t)
    return out


def parse_spec(path):
    cfg = {'record_names': {}, 'extern_c': [], 'trivial_externals': [], 'roots': [], 'prelude': [],
           'midlude': [], 'postlude': [], 'includes': [], 'defines': [], 'stub_functions': [],
           'params_as_locals': [], 'typedefs': {}, 'pure_hoist': [], 'cbmc_flags': [], 'skip_records': [], 'external_records': [], 'ext_overload_by_type': [],
           'rec_twin': [], 'ext_overload_by_ret': []}
    contracts = {}
    harnesses = []
    cur = None          # current function contract dict
    cur_loop = None     # current loop list
    pending = ''
    with open(path) as fh:
        lines = fh.read().split('\n')
    i = 0
    merged = []
    while i < len(lines):
        l = lines[i]
        while l.rstrip().endswith('\\') and i + 1 < len(lines):
            l = l.rstrip()[:-1] + ' ' + lines[i + 1].strip()
            i += 1
        merged.append(l)
        i += 1
    merged = expand_for(merged)
    for raw in merged:
        line = raw.split(' ##')[0].rstrip()
        if not line.strip() or line.strip().startswith('#'):
            continue
        s = line.strip()
        if s.startswith('@'):
            key, _, rest = s.partition(' ')
            rest = rest.strip()
            if key == '@function':
                name = rest
                cur = contracts.setdefault(name, {'requires': [], 'ensures': [], 'assigns': [], 'frees': [], 'loops': {}})
                cur_loop = None
            elif key == '@loop':
                if cur is None:
                    raise SpecError('@loop outside @function')
                cur_loop = cur['loops'].setdefault(int(rest), [])
            elif key == '@harness':
                parts = shlex.split(rest)
                h = {'name': parts[0], 'props': [], 'enforce': None, 'replace': [], 'timeout': 900, 'mem': 10,
                     'defines': [], 'covers': [], 'unwind': None, 'flags': [], 'tier': 'quick', 'expect': 'pass', 'loopc': True}
                for p in parts[1:]:
                    k, _, v = p.partition('=')
                    if k == 'props':
                        h['props'] = v.split(',')
                    elif k == 'enforce':
                        h['enforce'] = v
                    elif k == 'covers':
                        h['covers'] = [x for x in v.split(',') if x]
                    elif k == 'replace':
                        h['replace'] = [x for x in v.split(',') if x]
                    elif k in ('timeout', 'mem', 'unwind'):
                        h[k] = int(v)
                    elif k == 'tdefine':
                        h.setdefault('tdefines', []).append(v)
                    elif k == 'define':
                        h['defines'].append(v)
                    elif k == 'flags':
                        h['flags'] += v.split(',')
                    elif k == 'tier':
                        h['tier'] = v
                    elif k == 'dfcc_entry':
                        h['dfcc_entry'] = v not in ('0', 'no')
                    elif k == 'loopc':
                        h['loopc'] = v not in ('0', 'no', 'false')
                    else:
                        raise SpecError('unknown harness attribute %s' % k)
                harnesses.append(h)
                cur = None
                cur_loop = None
            elif key == '@record':
                a, _, b = rest.partition(' = ')
                cfg['record_names'][a.strip()] = b.strip()
            elif key == '@alias':
                a, _, b = rest.partition(' = ')
                cfg.setdefault('aliases', {})[a.strip()] = b.strip()
            elif key == '@field_map':
                a, _, b = rest.partition(' = ')
                cfg.setdefault('field_map', {})[a.strip()] = b.strip()
            elif key == '@global':
                a, _, b = rest.partition(' = ')
                cfg.setdefault('global_values', {})[a.strip()] = b.strip()
            elif key == '@typedef':
                a, _, b = rest.partition(' = ')
                cfg['typedefs'][a.strip()] = b.strip()
            elif key in ('@roots', '@extern_c', '@prelude', '@midlude', '@postlude', '@includes', '@defines',
                         '@stub_functions', '@external_records', '@params_as_locals', '@pure_hoist', '@cbmc_flags', '@skip_records', '@ext_overload_by_type',
                         '@rec_twin', '@ext_overload_by_ret'):
                cfg[key[1:]] += rest.split()
            elif key == '@trivial_external':
                cfg['trivial_externals'].append(rest)
            elif key in ('@driver', '@filter', '@component'):
                cfg[key[1:]] = rest
            elif key == '@ext_overload_by_arity':
                for x in rest.split():
                    cfg.setdefault('ext_overload_by_arity', {})[x] = True
            elif key == '@atomic_required':
                cfg.setdefault('atomic_required', []).extend(rest.split())
            elif key == '@guarded':
                a, _, b = rest.partition(' = ')
                cfg.setdefault('guarded', {})[a.strip()] = b.strip()
            elif key == '@mutating_methods':
                cfg.setdefault('mutating_methods', []).extend(rest.split())
            elif key == '@typename_pass':
                cfg['typename_pass'] = rest.strip() not in ('0', 'no')
            elif key == '@throw_codes':
                cfg['throw_codes'] = rest.strip() not in ('0', 'no')
            elif key == '@abstract_tables':
                cfg['abstract_tables'] = rest.strip() not in ('0', 'no')
            elif key == '@tolerated_clang_errors':
                cfg['tolerated_clang_errors'] = int(rest)
            else:
                raise SpecError('unknown directive %s' % key)
            continue
        # clause line inside a function or loop
        key, _, rest = s.partition(' ')
        rest = rest.strip()
        if cur is None:
            raise SpecError('clause outside @function: %s' % s)
        if cur_loop is not None and key in ('invariant', 'assigns', 'decreases'):
            m = {'invariant': '__CPROVER_loop_invariant(%s)', 'assigns': '__CPROVER_assigns(%s)',
                 'decreases': '__CPROVER_decreases(%s)'}[key]
            cur_loop.append(m % rest)
        elif key in ('requires', 'ensures', 'assigns', 'frees', 'requires_local', 'ensures_local', 'assigns_local', 'ensures_twin'):
            # requires_local: memory shape of the object the function is enforced on; not part of the contract that stands
            # in for recursive calls (@rec_twin), where that shape is the hereditary data-structure invariant
            cur_loop = None
            cur.setdefault(key, []).append(rest)
        else:
            raise SpecError('unknown clause %s' % s)
    return cfg, contracts, harnesses
