#!/usr/bin/env python3
"""Driver: lower a component from /repo, splice contracts, discharge with goto-instrument --dfcc + cbmc,
report per property.  Exit 0 = all obligations discharged; 1 = VIOLATION; 2 = tool failure (no verdict)."""
import sys
import os
import json
import time
import re
import subprocess
import resource
import hashlib
import shutil
import concurrent.futures as cf

ROOT = os.path.dirname(os.path.dirname(os.path.abspath(__file__)))
sys.path.insert(0, os.path.join(ROOT, 'lower'))
sys.path.insert(0, os.path.join(ROOT, 'tools'))
from cxxtypes import LowerError          # noqa: E402
import cxxemit                            # noqa: E402
from specfile import parse_spec, SpecError   # noqa: E402

REPO = os.environ.get('TULZ_REPO', '/repo')
WORK = os.path.join(ROOT, '.work')
CBMC_CHECKS = ['--bounds-check', '--pointer-check', '--pointer-overflow-check', '--signed-overflow-check',
               '--div-by-zero-check']
EXTRACTION_DROPS = [
    'access control, const, noexcept, inline, constexpr, attributes',
    'namespaces (kept in the C names), template parameters (only the listed instantiations are verified)',
    'exception propagation (throw = ghost flag + return; no catch in the code under contract)',
    'name lookup / overload resolution / implicit conversions (taken from clang, emitted as explicit casts/calls)',
    'ABI layout (same field order and types, proofs do not depend on padding)',
    'range-for over a built-in array of known bound is emitted as an index loop over the same iteration space',
    'sub-expressions that create temporaries are hoisted in front of their full-expression (evaluation order '
    'inside one full-expression is otherwise kept)',
]


class ToolFailure(Exception):
    pass


def sh(cmd, timeout=None, mem_gb=None, cwd=None):
    def lim():
        if mem_gb:
            b = int(mem_gb * (1 << 30))
            resource.setrlimit(resource.RLIMIT_AS, (b, b))
    t0 = time.time()
    try:
        p = subprocess.run(cmd, stdout=subprocess.PIPE, stderr=subprocess.PIPE, text=True, timeout=timeout,
                           preexec_fn=lim, cwd=cwd)
        return p.returncode, p.stdout, p.stderr, time.time() - t0
    except subprocess.TimeoutExpired as e:
        return -9, (e.stdout or b'').decode() if isinstance(e.stdout, bytes) else (e.stdout or ''), 'TIMEOUT', time.time() - t0


def build_component(comp, workdir, extra_defines=()):
    spec = os.path.join(ROOT, 'contracts', comp + '.spec')
    cfg, contracts, harnesses = parse_spec(spec)
    cfg['driver'] = os.path.join(ROOT, cfg['driver'])
    cfg['includes'] = [os.path.join(REPO, 'include'), REPO, os.path.join(ROOT, 'lower', 'drivers')] + \
        [i.replace('$REPO', REPO) for i in cfg['includes']]
    cfg['defines'] = list(cfg['defines']) + ['TULZ_REPO_ROOT="%s"' % REPO]
    for name, c in contracts.items():
        for o, lst in c['loops'].items():
            asg = [x[len('__CPROVER_assigns('):-1] for x in lst if x.startswith('__CPROVER_assigns(')]
            if len(asg) > 1:
                lst[:] = ['__CPROVER_assigns(%s)' % '; '.join(asg)] + [x for x in lst if not x.startswith('__CPROVER_assigns(')]
            lst.sort(key=lambda s: 0 if s.startswith('__CPROVER_assigns') else (2 if s.startswith('__CPROVER_decreases') else 1))
        c['require_loop_contracts'] = True
    os.makedirs(workdir, exist_ok=True)
    t0 = time.time()
    if cfg.get('typename_pass'):
        cfg['typename_fixes'] = typename_pass(cfg, workdir)
    # A loop that has no invariant (the code changed: contracts are keyed by function and loop ordinal) cannot be proved.
    # Instead of giving up at once the function is lowered without the requirement and its harnesses are explored with a
    # small unwinding bound, WITHOUT unwinding assertions: an under-approximation.  A failed obligation found that way
    # is a real execution of the lowered code against its contract and is reported; finding none proves nothing and the
    # result is UNDECIDED (exit 2).  Never taken on a tree whose loops all have contracts.
    cfg['bounded_functions'] = []
    for _ in range(6):
        try:
            text, em = cxxemit.lower_component(cfg, contracts)
            break
        except LowerError as e:
            m = re.match(r'^(\S+): loop \d+ has no loop contract', str(e))
            if not m or m.group(1) not in contracts or m.group(1) in cfg['bounded_functions']:
                raise
            contracts[m.group(1)]['require_loop_contracts'] = False
            cfg['bounded_functions'].append(m.group(1))
    else:
        raise ToolFailure('too many functions with loops that have no loop contract')
    post = ''.join('#include "%s"\n' % p for p in cfg['postlude'])
    cfile = os.path.join(workdir, 'lowered.c')
    with open(cfile, 'w') as fh:
        fh.write(text + post)
    # A loop contract that names a variable the (changed) loop no longer has cannot be spliced: the same bounded
    # under-approximation as for a loop without contract (violations only, never a pass).
    for _ in range(4):
        rc, out, err, _dt = sh(['goto-cc', '-I', os.path.join(ROOT, 'specs'), '-I', ROOT, '-I', os.path.join(ROOT, 'contracts'),
                                '-c', cfile, '-o', os.path.join(workdir, 'syntax.gb')], timeout=300, mem_gb=8)
        m = re.search(r"In function '(\w+)':\n[^\n]*error: failed to find symbol '[^']*'\n\s*__CPROVER_(loop_invariant|assigns|decreases)", out + err)
        if rc == 0 or not m or m.group(1) not in contracts or m.group(1) in cfg['bounded_functions']:
            break
        contracts[m.group(1)]['loops'] = {}
        contracts[m.group(1)]['require_loop_contracts'] = False
        cfg['bounded_functions'].append(m.group(1))
        text, em = cxxemit.lower_component(cfg, contracts)
        with open(cfile, 'w') as fh:
            fh.write(text + post)
    cfg['mutable_globals'] = list(em.mutable_globals)
    with open(os.path.join(workdir, 'names.txt'), 'w') as fh:
        for c in em.order:
            q, f, l = em.func_loc[c]
            fh.write('%-60s %s  %s:%s  %s\n' % (c, q, f, l, em.src_hash[c]))
    return cfile, em, cfg, contracts, harnesses, time.time() - t0


def typename_pass(cfg, workdir):
    """clang 14 lacks P0634 (typename optional in C++20): work on a scratch copy of /repo/include in which `typename `
    is inserted at exactly the positions clang diagnoses; errors left over must be located outside tulz files"""
    inc = os.path.join(workdir, 'include_p0634')
    shutil.rmtree(inc, ignore_errors=True)
    shutil.copytree(os.path.join(REPO, 'include'), inc)
    cfg['includes'] = [inc] + [i for i in cfg['includes'] if i != os.path.join(REPO, 'include')]
    fixes = []
    for _ in range(12):
        cmd = ['clang++-14', '-std=c++20', '-fsyntax-only'] + sum([['-I', i] for i in cfg['includes']], []) + [cfg['driver']]
        p = subprocess.run(cmd, stdout=subprocess.PIPE, stderr=subprocess.PIPE, text=True)
        todo = {}
        for m in re.finditer(r"^(\S+?):(\d+):(\d+): error: missing 'typename' prior to dependent type name", p.stderr, re.M):
            todo.setdefault(m.group(1), set()).add((int(m.group(2)), int(m.group(3))))
        if not todo:
            rest = re.findall(r'^(\S+?):\d+:\d+: error: (.*)$', p.stderr, re.M)
            bad = [r for r in rest if r[0].startswith(inc) or r[0].startswith(REPO)]
            if bad:
                raise ToolFailure('clang errors inside tulz files after the typename pass: %s' % bad[:3])
            cfg['tolerated_clang_errors'] = len(rest)
            cfg['tolerated_error_texts'] = ['%s: %s' % r for r in rest][:10]
            return fixes
        for f, poss in todo.items():
            if not f.startswith(inc):
                raise ToolFailure('missing typename outside the scratch copy: %s' % f)
            with open(f) as fh:
                lines = fh.read().split('\n')
            for (ln, col) in sorted(poss, reverse=True):
                l = lines[ln - 1]
                lines[ln - 1] = l[:col - 1] + 'typename ' + l[col - 1:]
                fixes.append('%s:%d:%d' % (os.path.relpath(f, inc), ln, col))
            with open(f, 'w') as fh:
                fh.write('\n'.join(lines))
    raise ToolFailure('typename pass did not converge')


def run_harness(h, cfile, workdir, cfg, tier='quick'):
    name = h['name']
    hd = os.path.join(workdir, name)
    os.makedirs(hd, exist_ok=True)
    gb1, gb2 = os.path.join(hd, 'a.gb'), os.path.join(hd, 'b.gb')
    res = {'name': name, 'enforce': h['enforce'], 'replace': h['replace'], 'props': h['props'], 'status': 'error',
           'obligations': 0, 'discharged': 0, 'failed': [], 'wall_s': 0.0, 'detail': '', 'cmds': []}
    t0 = time.time()
    incs = ['-I', os.path.join(ROOT, 'specs'), '-I', ROOT, '-I', os.path.join(ROOT, 'contracts')]
    defs = ['-D' + d for d in h['defines']] + ['-DVERIF_TIER_%s' % tier.upper()]
    if tier == 'thorough':
        defs += ['-D' + d for d in h.get('tdefines', [])]      # wider domain bounds in the thorough tier
    cmd = ['goto-cc'] + incs + defs + ['--function', name, cfile, '-o', gb1]
    res['cmds'].append(' '.join(cmd))
    rc, out, err, _ = sh(cmd, timeout=300, mem_gb=8)
    if rc != 0:
        res['detail'] = 'goto-cc failed:\n' + (out + err)[-3000:]
        res['wall_s'] = time.time() - t0
        return res
    target = gb1
    if h['enforce'] or h.get('dfcc_entry'):
        cmd = ['goto-instrument', '--no-malloc-may-fail', '--dfcc', name]
        if h['enforce']:
            cmd += ['--enforce-contract', h['enforce']]
        repl = list(h['replace'])
        if h['enforce']:
            # every call of a function that has a contract twin goes through the twin (lower/cxxbody.py): a changed tree may
            # call one that this harness did not expect (a function that became recursive, a new call of isEmpty, ...)
            try:
                with open(cfile) as fh_:
                    ctext = fh_.read()
            except OSError:
                ctext = ''
            for t in cfg.get('rec_twin', []):
                if t + '__rec' not in repl and len(re.findall(r'\b%s__rec\(' % re.escape(t), ctext)) > 1:
                    repl.append(t + '__rec')
        for r in repl:
            cmd += ['--replace-call-with-contract', r]
        if h['loopc']:
            cmd += ['--apply-loop-contracts']
        cmd += [gb1, gb2]
        res['cmds'].append(' '.join(cmd))
        rc, out, err, _ = sh(cmd, timeout=600, mem_gb=8)
        if rc != 0:
            res['detail'] = 'goto-instrument failed:\n' + (out + err)[-3000:]
            res['wall_s'] = time.time() - t0
            return res
        with open(os.path.join(hd, 'instrument.log'), 'w') as fh:
            fh.write(out + err)
        target = gb2
    elif cfg.get('mutable_globals'):
        # no contract instrumentation (which starts from arbitrary statics anyway): the program's own mutable statics are
        # arbitrary when an operation starts, not in their initial state
        cmd = ['goto-instrument', '--nondet-static-matching', '.*[^A-Za-z0-9_](%s)$' % '|'.join(re.escape(g) for g in cfg['mutable_globals']), gb1, gb2]
        res['cmds'].append(' '.join(cmd))
        rc, out, err, _ = sh(cmd, timeout=600, mem_gb=8)
        if rc != 0:
            res['detail'] = 'goto-instrument --nondet-static-matching failed:\n' + (out + err)[-3000:]
            res['wall_s'] = time.time() - t0
            return res
        target = gb2
    cmd = ['cbmc', '--sat-solver', 'cadical', '--no-malloc-may-fail'] + CBMC_CHECKS
    if h['unwind']:
        cmd += ['--unwind', str(h['unwind']), '--unwinding-assertions']
    elif cfg.get('bounded_functions'):
        # only the loops of the functions that lost their invariant; every other loop keeps its contract / its own bound
        rc_, out_, err_, _ = sh(['goto-instrument', '--show-loops', target], timeout=120, mem_gb=8)
        ids = [m for m in re.findall(r'^Loop (\S+):', out_, re.M) if m.rsplit('.', 1)[0].replace('_wrapped_for_contract_checking', '') in cfg['bounded_functions']]
        if ids:
            cmd += ['--unwindset', ','.join('%s:3' % i for i in ids), '--no-unwinding-assertions']
        res['bounded_unwind'] = 3 if ids else 0       # 0: this harness does not contain such a loop, its result is a full proof
    cmd += [f for f in (h['flags'] + cfg.get('cbmc_flags', [])) if f]
    cmd += [target]
    res['cmds'].append(' '.join(cmd))
    # plain-text UI: the JSON UI builds a full trace for every failed property (the vacuity canary always fails)
    rc, out, err, dt = sh(cmd, timeout=h['timeout'] * (3 if tier == 'thorough' else 1), mem_gb=h['mem'])
    with open(os.path.join(hd, 'cbmc.log'), 'w') as fh:
        fh.write(out + '\n--- stderr ---\n' + err)
    res['wall_s'] = time.time() - t0
    res['solver_s'] = dt
    alltext = out + err
    if rc == -9:
        res['status'] = 'timeout'
        res['detail'] = 'cbmc timed out after %ds' % h['timeout']
        return res
    if 'Out of memory' in alltext or 'std::bad_alloc' in alltext or rc in (-6, 134, 137, -11):
        res['status'] = 'oom'
        res['detail'] = 'cbmc ran out of memory (limit %s GB) or crashed (rc=%s)' % (h['mem'], rc)
        return res
    results = []
    curfile = curfn = None
    for line in out.split('\n'):
        m = re.match(r'^(\S+) function (\S+)$', line.strip())
        if m:
            curfile, curfn = m.group(1), m.group(2)
            continue
        m = re.match(r'^\[(\S+)\] line (\d+) (.*): (SUCCESS|FAILURE|UNKNOWN|ERROR)$', line.strip())
        if m:
            results.append({'property': m.group(1), 'description': m.group(3), 'status': m.group(4),
                            'sourceLocation': {'file': curfile, 'function': curfn, 'line': m.group(2)}})
            continue
        m = re.match(r'^\[(\S+)\] (.*): (SUCCESS|FAILURE|UNKNOWN|ERROR)$', line.strip())
        if m:
            results.append({'property': m.group(1), 'description': m.group(2), 'status': m.group(3),
                            'sourceLocation': {'file': curfile, 'function': curfn, 'line': None}})
    if 'VERIFICATION SUCCESSFUL' not in out and 'VERIFICATION FAILED' not in out:
        res['detail'] = 'cbmc gave no verdict (rc=%s): %s' % (rc, alltext[-2500:])
        return res
    if re.search(r'no body for (function|callee)', alltext):
        missing = sorted(set(re.findall(r'no body for (?:function|callee) (\S+)', alltext)))
        res['detail'] = 'functions without body (would be havoc): %s' % missing
        return res
    if 'ignoring forall' in alltext or 'ignoring exists' in alltext:
        res['detail'] = 'quantifier ignored by the SAT back end'
        return res
    res['obligations'] = len(results)
    canary_ok = None
    for r in results:
        st = r.get('status')
        desc = r.get('description', '')
        if 'VACUITY-CANARY' in desc:
            res['obligations'] -= 1
            if (r.get('property') or '').startswith(name + '.'):
                canary_ok = (st == 'FAILURE')
            continue
        if st == 'SUCCESS':
            res['discharged'] += 1
        elif res.get('bounded_unwind') and ' is assignable' in desc and \
                (r.get('sourceLocation', {}).get('function') or '').replace('_wrapped_for_contract_checking', '') in cfg.get('bounded_functions', []):
            # frame checks inside a loop that has no contract: dfcc's inferred loop frame is not a statement about the code
            res.setdefault('ignored_bounded', []).append(desc)
        else:
            loc = r.get('sourceLocation', {})
            res['failed'].append({'property': r.get('property'), 'description': desc, 'status': st,
                                  'file': loc.get('file'), 'line': loc.get('line'), 'function': loc.get('function'),
                                  'trace': summarise_trace(r.get('trace', []))})
    res['canary'] = canary_ok
    undefined = sorted(set(f['function'] for f in res['failed'] if 'undefined function should be unreachable' in (f['description'] or '')))
    if undefined:
        res['status'] = 'error'
        res['detail'] = 'the lowered code calls functions for which /verif/specs has no model: %s' % undefined
        return res
    def _local_frame(f):
        return bool(re.match(r'^Check that \w+ is assignable$', f['description'] or '')) and \
            (f.get('function') or '').replace('_wrapped_for_contract_checking', '') == (h['enforce'] or '')
    if res['failed'] and all(_local_frame(f) for f in res['failed']):
        # only the frame of a loop contract is affected (a new local variable inside a loop under contract): the loop contract
        # has to be extended before anything can be said; this is not a statement about the property
        res['status'] = 'error'
        res['detail'] = 'loop frame out of date: %s' % '; '.join(sorted(set(f['description'] for f in res['failed'])))
        return res
    limits = sorted(set(f['description'] for f in res['failed'] if 'MODEL-LIMIT' in (f['description'] or '')))
    if limits:
        # the changed code uses a library operation in a way the model in /verif/specs does not cover: no verdict
        res['status'] = 'error'
        res['detail'] = 'outside the library models: %s' % '; '.join(limits)
        return res
    # second pass: counterexample traces for (at most three) failed obligations only
    if res['failed'] and os.environ.get('VERIF_NO_TRACE') != '1':
        for f in res['failed'][:3]:
            c2 = [c for c in cmd if c != target] + ['--json-ui', '--trace', '--property', f['property'], target]
            rc2, out2, err2, dt2 = sh(c2, timeout=min(600, h['timeout']), mem_gb=h['mem'])
            try:
                for m in json.loads(out2):
                    if isinstance(m, dict) and 'result' in m:
                        for r in m['result']:
                            if r.get('property') == f['property'] and r.get('trace'):
                                f['trace'] = summarise_trace(r['trace'])
            except Exception:
                pass
    if h['enforce'] and h['loopc']:
        res['loop_obligations'] = sum(1 for r in results if 'loop invariant' in r.get('description', '').lower() or 'loop_invariant' in (r.get('property') or ''))
    if res['failed']:
        res['status'] = 'fail'
    elif canary_ok is False:
        res['status'] = 'error'
        res['detail'] = 'vacuity canary not reachable: preconditions are contradictory or the function cannot return'
    elif res['obligations'] == 0:
        res['detail'] = 'no obligations generated'
    elif res.get('bounded_unwind'):
        res['status'] = 'error'
        res['detail'] = ('function(s) %s contain a loop for which /verif/contracts has no invariant; exploring up to %d iterations '
                         'found no failed obligation, which proves nothing' % (', '.join(cfg['bounded_functions']), res['bounded_unwind']))
    else:
        res['status'] = 'pass'
    return res


def summarise_trace(trace, limit=400):
    """keep assignments to ghost variables, parameters and fields: enough to rebuild the failing input"""
    out = []
    for st in trace:
        if st.get('stepType') != 'assignment' or st.get('hidden'):
            continue
        lhs = st.get('lhs', '')
        if lhs.startswith('__CPROVER') or lhs.startswith('__dfcc') or 'dfcc' in lhs or lhs.startswith('return_value') and False:
            continue
        v = st.get('value', {})
        val = v.get('data', v.get('name'))
        if val is None and 'members' in v:
            val = {m.get('name'): m.get('value', {}).get('data') for m in v['members']}
        fn = st.get('sourceLocation', {}).get('function')
        out.append({'lhs': lhs, 'value': val, 'function': fn, 'line': st.get('sourceLocation', {}).get('line')})
    return out[-limit:]


def select(harnesses, prop=None, names=None, tier='quick'):
    sel = []
    for h in harnesses:
        if names and h['name'] not in names:
            continue
        if prop and prop not in h['props']:
            continue
        if h['tier'] == 'thorough' and tier != 'thorough':
            continue
        sel.append(h)
    return sel


def run_many(hs, cfile, workdir, cfg, tier, jobs=None):
    jobs = jobs or int(os.environ.get('VERIF_JOBS', '12'))
    results = []
    with cf.ThreadPoolExecutor(max_workers=jobs) as ex:
        futs = {ex.submit(run_harness, h, cfile, workdir, cfg, tier): h for h in hs}
        for f in cf.as_completed(futs):
            r = f.result()
            results.append(r)
            sys.stderr.write('  [%s] %-44s %4d/%-4d obligations  %6.1fs %s\n' % (
                r['status'], r['name'], r['discharged'], r['obligations'], r['wall_s'],
                ('; '.join(x['description'] for x in r['failed'][:3]) if r['failed'] else r['detail'][:300])))
            sys.stderr.flush()
    results.sort(key=lambda r: r['name'])
    return results


def clause_text(cfile, line):
    try:
        with open(cfile) as fh:
            ls = fh.read().split('\n')
        return ls[int(line) - 1].strip()[:400]
    except Exception:
        return ''


def load_known():
    p = os.path.join(ROOT, 'known_findings.json')
    if not os.path.exists(p):
        return {'findings': [], 'fixed': []}
    with open(p) as fh:
        return json.load(fh)


def match_known(known, prop, harness, failed):
    """a finding suppresses exactly the obligations it lists for that harness (by function + description substring)"""
    for k in known.get('findings', []):
        if k.get('property') != prop:
            continue
        for o in k.get('obligations', []):
            if o.get('harness') == harness['name'] and o.get('function') == failed.get('function') and \
                    o.get('description') in (failed.get('description') or '') and \
                    (not o.get('clause') or o.get('clause') in (failed.get('clause') or '')):
                return k
    return None


def assumptions_scan(comp_cfgs):
    """mechanical scan of the assumed side: every __CPROVER_assume, every model with a body, every stub"""
    out = []
    files = set()
    for cfg in comp_cfgs:
        for f in cfg['prelude'] + cfg['midlude'] + cfg['postlude']:
            files.add(os.path.join(ROOT, f))
    files.add(os.path.join(ROOT, 'specs', 'elem.h'))
    for f in sorted(files):
        if not os.path.exists(f):
            continue
        with open(f) as fh:
            for i, l in enumerate(fh.read().split('\n'), 1):
                if '__CPROVER_assume' in l:
                    out.append('%s:%d assume: %s' % (os.path.relpath(f, ROOT), i, l.strip()[:160]))
                m = re.match(r'^static\s+[\w\s\*]+?\b(\w+)\s*\(', l)
                if m and not l.strip().endswith(';'):
                    out.append('%s:%d model of dependency: %s' % (os.path.relpath(f, ROOT), i, m.group(1)))
    return out


def components_for(prop):
    comps = []
    for fn in sorted(os.listdir(os.path.join(ROOT, 'contracts'))):
        if not fn.endswith('.spec'):
            continue
        cfg, contracts, hs = parse_spec(os.path.join(ROOT, 'contracts', fn))
        if any(prop in h['props'] for h in hs):
            comps.append(fn[:-5])
    return comps


def check(prop, tier):
    t0 = time.time()
    seed = int(os.environ.get('VERIF_SEED', '0') or 0)
    wd = os.path.join(WORK, prop)
    shutil.rmtree(wd, ignore_errors=True)
    os.makedirs(wd, exist_ok=True)
    evp = os.path.join(ROOT, 'evidence', prop + '.json')
    if os.path.realpath(REPO) != '/repo':
        evp = os.path.join(WORK, 'evidence_scratch', prop + '.json')     # scratch trees never overwrite committed evidence
    comps = components_for(prop)
    if not comps:
        raise ToolFailure('no harness is registered for property %s' % prop)
    all_results, funcs, cfgs = [], [], []
    lower_s = 0.0
    for comp in comps:
        cwd = os.path.join(wd, comp)
        cfile, em, cfg, contracts, hs, dt = build_component(comp, cwd)
        lower_s += dt
        cfgs.append(cfg)
        sel = select(hs, prop=prop, tier=tier)
        rs = run_many(sel, cfile, cwd, cfg, tier)
        for r in rs:
            r['component'] = comp
            r['cfile'] = cfile
            for f in r['failed']:
                f['clause'] = clause_text(cfile, f['line']) if f.get('line') and (f.get('file') or '').endswith('lowered.c') else ''
        all_results += rs
        under = sorted(set([h['enforce'] for h in sel if h['enforce']] + [c for h in sel for c in h.get('covers', [])]))
        for c in under:
            if c in em.func_loc:
                q, f, l = em.func_loc[c]
                f = (f or '').replace(os.path.join(cwd, 'include_p0634'), os.path.join(REPO, 'include'))   # scratch copy of the typename pass
                funcs.append({'function': q, 'lowered_as': c, 'source': '%s:%s' % (f, l), 'lowered_text_sha': em.src_hash[c]})
    tool_bad = [r for r in all_results if r['status'] in ('error', 'timeout', 'oom')]
    known = load_known()
    violations, known_hits = [], []
    for r in all_results:
        if r['status'] != 'fail':
            continue
        fresh = []
        for f in r['failed']:
            k = match_known(known, prop, r, f)
            if k:
                known_hits.append((k, r, f))
            else:
                fresh.append(f)
        if fresh:
            violations.append((r, fresh))
    obligations = sum(r['obligations'] for r in all_results)
    discharged = sum(r['discharged'] for r in all_results)
    samples = []
    for r in all_results[:4]:
        samples.append({'harness': r['name'], 'function_under_contract': r['enforce'], 'replaced_by_contract': r['replace'],
                        'obligations': r['obligations'], 'discharged': r['discharged'], 'wall_s': round(r['wall_s'], 1)})
    ev = {
        'property_id': prop, 'tier': tier, 'seed': seed, 'level': 'proof',
        'coverage': {
            'obligations': obligations, 'discharged': discharged,
            'checker_cmd': '; '.join(all_results[0]['cmds']) if all_results else '',
            'trusted_base': ['clang 14 semantic analysis + cxxlower (lower/*.py) lowering of the listed instantiations',
                             'cbmc/goto-instrument 6.11.0 (dfcc contract instrumentation), cadical SAT back end',
                             'library models and contracts under /verif/specs (see assumptions)'],
            'back_end': 'cbmc 6.11.0 + cadical (SAT); no SMT, no quantifiers',
            'functions_under_contract': funcs,
            'harnesses': [{'harness': r['name'], 'component': r['component'], 'status': r['status'], 'enforce': r['enforce'],
                           'replace': r['replace'], 'obligations': r['obligations'], 'discharged': r['discharged'],
                           'vacuity_canary_reachable': r.get('canary'), 'wall_s': round(r['wall_s'], 1),
                           'solver_s': round(r.get('solver_s', 0.0), 1)} for r in all_results],
            'bounded': [],
            'samples': samples,
            'extraction_drops': EXTRACTION_DROPS,
            'lowering_s': round(lower_s, 1),
            'solver_s_total': round(sum(r.get('solver_s', 0.0) for r in all_results), 1),
            'known_findings_hit': [k['id'] for (k, r, f) in known_hits],
            'explanation': 'every obligation generated by goto-instrument --dfcc (function contracts enforced, callee contracts '
                           'replaced, loop contracts applied) plus cbmc pointer/bounds/overflow checks for the functions lowered '
                           'from /repo on this run',
        },
        'assumptions': assumptions_scan(cfgs) + [
            'machine integers are bit-precise; domain restrictions: capacities/lengths <= 2^30, counters < 2^62',
            'malloc never fails; realloc preserves the common prefix',
            'induction over operation histories / schedules is a paper argument (DESIGN.md section 8)'],
        'wall_s': round(time.time() - t0, 1),
        'violations': len(violations),
    }
    os.makedirs(os.path.dirname(evp), exist_ok=True)
    with open(evp, 'w') as fh:
        json.dump(ev, fh, indent=1)
    if tool_bad:
        for r in tool_bad:
            sys.stderr.write('TOOL-FAILURE %s %s: %s\n' % (r['name'], r['status'], r['detail'][:1500]))
        print('UNDECIDED property=%s (%d harness(es) gave no verdict: %s)' % (prop, len(tool_bad), ', '.join(r['name'] for r in tool_bad)))
        return 2
    seen = set()
    for (k, r, f) in known_hits:
        if k['id'] not in seen:
            seen.add(k['id'])
            print('KNOWN-FINDING: property=%s %s' % (prop, k['what']))
    if violations:
        import replay_hooks
        for (r, fresh) in violations:
            rp = replay_hooks.make_replay(prop, r, fresh, wd, tier)
            suffix = '' if rp.get('confirmed') else ' no-failing-input-found'
            for f in fresh[:6]:
                print('FAILED-OBLIGATION property=%s harness=%s function=%s obligation=%s :: %s :: %s' % (
                    prop, r['name'], f.get('function'), f.get('property'), f.get('description'), f.get('clause', '')[:200]))
            print('VIOLATION property=%s replay=%s%s' % (prop, rp['path'], suffix))
        return 1
    print('OK property=%s obligations=%d discharged=%d harnesses=%d wall=%.0fs' % (prop, obligations, discharged, len(all_results), time.time() - t0))
    return 0


def main(argv):
    if len(argv) < 2:
        print(__doc__)
        return 2
    cmd = argv[1]
    if cmd == 'lower':
        comp = argv[2]
        wd = os.path.join(WORK, 'dev', comp)
        cfile, em, cfg, contracts, hs, dt = build_component(comp, wd)
        print('lowered %d functions in %.1fs -> %s' % (len(em.order), dt, cfile))
        for w in em.lw.warnings:
            print('warning:', w)
        return 0
    if cmd == 'run':
        comp = argv[2]
        names = [a for a in argv[3:] if not a.startswith('--')]
        tier = 'thorough' if '--thorough' in argv else 'quick'
        wd = os.path.join(WORK, 'dev', comp)
        cfile, em, cfg, contracts, hs, dt = build_component(comp, wd)
        sel = select(hs, names=names or None, tier=tier if not names else 'thorough')
        rs = run_many(sel, cfile, wd, cfg, tier)
        bad = [r for r in rs if r['status'] != 'pass']
        for r in bad:
            print('==', r['name'], r['status'])
            print(r['detail'])
            for f in r['failed']:
                print('   FAILED', f['property'], '|', f['description'], '|', f['file'], f['line'])
        print('%d harnesses, %d not passing' % (len(rs), len(bad)))
        return 0 if not bad else 1
    if cmd == 'check':
        prop = argv[2]
        tier = os.environ.get('VERIF_TIER') or ('thorough' if '--thorough' in argv else 'quick')
        for i, a in enumerate(argv):
            if a == '--tier':
                tier = argv[i + 1]
        return check(prop, tier)
    print('unknown command')
    return 2


if __name__ == '__main__':
    try:
        sys.exit(main(sys.argv))
    except (LowerError, SpecError, ToolFailure) as e:
        sys.stderr.write('TOOL-FAILURE: %s\n' % e)
        sys.exit(2)
