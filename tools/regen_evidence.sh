#!/bin/bash
# regenerate the committed evidence files by running every registered quick check against /repo
cd /verif
for p in "$@"; do
  ./check $p > .work/regen_$p.log 2>&1; echo "$p exit=$? $(tail -1 .work/regen_$p.log | cut -c1-160)"
done
