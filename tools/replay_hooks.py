"""Turn a failed obligation into a replay file and try to reproduce it on the real C++ (native, sanitizers).
The replay never decides anything: a failed obligation is reported either way (see DESIGN.md 3.4)."""
import os
import re
import json
import subprocess
import time

ROOT = os.path.dirname(os.path.dirname(os.path.abspath(__file__)))
REPO = os.environ.get('TULZ_REPO', '/repo')


def _run(cmd, timeout=300, env=None):
    try:
        p = subprocess.run(cmd, stdout=subprocess.PIPE, stderr=subprocess.STDOUT, text=True, timeout=timeout, env=env)
        return p.returncode, p.stdout
    except subprocess.TimeoutExpired:
        return -9, 'TIMEOUT'


def build_native(name, src, wd, extra=()):
    exe = os.path.join(wd, name)
    cmd = ['g++', '-std=c++20', '-g', '-O0', '-fsanitize=address,undefined', '-fno-sanitize-recover=undefined',
           '-I', os.path.join(REPO, 'include'), '-I', os.path.join(ROOT, 'replay')] + list(extra) + [src, '-o', exe]
    rc, out = _run(cmd, timeout=600)
    return (exe if rc == 0 else None), out


def trace_values(failed):
    vals = {}
    for f in failed:
        for st in f.get('trace', []) or []:
            lhs = st.get('lhs') or ''
            v = st.get('value')
            if isinstance(v, str):
                m = re.match(r'^(-?\d+)', v.replace('ul', '').replace('l', '').replace('u', ''))
                if m:
                    vals.setdefault(lhs, int(m.group(1)))
    return vals


def small_counterexample(result, fresh, wd, defines):
    """re-run the failing harness with a small domain bound so that the counterexample is replayable"""
    import verif
    from specfile import parse_spec
    comp = result['component']
    cfg, contracts, hs = parse_spec(os.path.join(ROOT, 'contracts', comp + '.spec'))
    h = [x for x in hs if x['name'] == result['name']][0]
    h = dict(h)
    h['defines'] = list(h['defines']) + list(defines)
    h['name'] = h['name']
    sub = os.path.join(wd, comp, 'small')
    os.makedirs(sub, exist_ok=True)
    r = verif.run_harness(h, result['cfile'], sub, cfg)
    if r['status'] == 'fail':
        return r['failed']
    return None


# ---------------------------------------------------------------------------------- RingBuffer
RB_OPS = [
    (r'emplace_back|push_back', 'pb 7'), (r'emplace_front|push_front', 'pf 7'), (r'pop_back', 'ob'),
    (r'pop_front', 'of'), (r'resize', 'rs {n}'), (r'assign_copy', 'ca {c2} {p2} {s2}'), (r'ctor_copy', 'cc'),
    (r'ctor_move', 'mc'), (r'assign_move', 'ma {c2} {p2} {s2}'), (r'op_eq', 'eq'), (r'silentCopy', 'rs {n}'),
]


def rb_scripts(result, vals):
    name = result['name']
    ow = 0 if '_RBf_' in name else 1
    op = None
    for pat, o in RB_OPS:
        if re.search(pat, name):
            op = o
            break
    cap = vals.get('g_cap0', 0)
    pos = vals.get('g_pos0', 0)
    size = vals.get('g_size0', 0)
    n = vals.get('n', vals.get('newCapacity', 1))
    scripts = []

    def mk(cap, pos, size, n, c2=3, p2=1, s2=2):
        lines = ['overwrite %d' % ow, 'state %d %d %d' % (cap, pos, size)]
        if op:
            o = op.format(n=n, c2=c2, p2=p2, s2=s2)
            if o.startswith('pb') or o.startswith('pf'):
                if not ow and size >= cap:
                    return None
            if o in ('ob', 'of') and size == 0:
                return None
            lines.append(o)
        # a short generic tail that uses the buffer again (a corrupted head/size shows on the next operations)
        cap2, size2 = cap, size
        if op:
            o = op.format(n=n, c2=c2, p2=p2, s2=s2)
            if o.startswith('pb') or o.startswith('pf'):
                size2 = min(size + 1, cap)
            elif o in ('ob', 'of'):
                size2 = size - 1
            elif o.startswith('rs'):
                cap2, size2 = n, min(size, n)
            elif o.startswith('ca') or o.startswith('ma'):
                cap2, size2 = c2, s2
        for v in (71, 72):
            if ow or size2 < cap2:
                lines.append('pb %d' % v)
                size2 = min(size2 + 1, cap2)
        if size2 > 0:
            lines.append('of')
            size2 -= 1
        if size2 > 0:
            lines.append('ob')
        lines += ['eq']
        return '\n'.join(lines) + '\n'
    if 1 <= cap <= 64 and 0 <= pos < cap and size <= cap and 1 <= n <= 64:
        s = mk(cap, pos, size, n)
        if s:
            scripts.append(('counterexample', s))
    # replay aid: small neighbourhood of states for the same operation
    for c in range(1, 6):
        for p in range(c):
            for z in range(c + 1):
                for nn in ([1, 2, 3, 4, 5, 6] if op and '{n}' in op else [1]):
                    s = mk(c, p, z, nn)
                    if s:
                        scripts.append(('sweep cap=%d head=%d size=%d n=%d' % (c, p, z, nn), s))
    return scripts


def replay_ringbuffer(prop, result, fresh, wd, info):
    small = small_counterexample(result, fresh, wd, ['CAP_MAX=6'])
    vals = trace_values(small or fresh)
    info['small_domain_counterexample'] = {k: v for k, v in vals.items() if k.startswith('g_') or k in ('n', 'newCapacity')}
    exe, out = build_native('rb_replay', os.path.join(ROOT, 'replay', 'rb_replay.cpp'), wd)
    if exe is None:
        info['native'] = 'replay driver does not build against the current tree: ' + out[-1500:]
        return False
    env = dict(os.environ, ASAN_OPTIONS='detect_leaks=0:abort_on_error=0', UBSAN_OPTIONS='print_stacktrace=0')
    for label, script in rb_scripts(result, vals):
        sp = os.path.join(wd, 'replay_script.txt')
        with open(sp, 'w') as fh:
            fh.write(script)
        rc, o = _run([exe, sp], timeout=60, env=env)
        if rc != 0 and ('CONFIRMED' in o or 'ERROR: AddressSanitizer' in o or 'runtime error' in o):
            info['native'] = {'input': label, 'script': script, 'outcome': 'CONFIRMED',
                              'output': '\n'.join([l for l in o.split('\n') if 'CONFIRMED' in l or 'ERROR' in l or 'runtime error' in l][:6])}
            return True
    info['native'] = {'outcome': 'NOT-REPRODUCED', 'tried': 'counterexample state and all states with capacity <= 5'}
    return False


def replay_array(prop, result, fresh, wd, info):
    exe, out = build_native('arr_replay', os.path.join(ROOT, 'replay', 'arr_replay.cpp'), wd)
    if exe is None:
        info['native'] = 'replay driver does not build against the current tree: ' + out[-1500:]
        return False
    env = dict(os.environ, ASAN_OPTIONS='detect_leaks=0:abort_on_error=0')
    name = result['name']
    ops = {'ctor_ptr': ['ptr {n}'], 'ctor_list': ['list 3'], 'ctor_size': ['size {n}'], 'ctor_fill': ['fill {n} 5'],
           'ctor_copy': ['fill {n} 5', 'copy'], 'ctor_move': ['fill {n} 5', 'move'], 'assign_copy': ['fill {n} 5', 'assign {m}'],
           'assign_move': ['fill {n} 5', 'massign {m}'], 'resize_fill': ['fill {n} 5', 'resizefill {m} 6'], 'resize': ['fill {n} 5', 'resize {m}'],
           'dtor': ['fill {n} 5'], 'destroy': ['fill {n} 5', 'resize {m}'], 'initialize': ['size {n}', 'resize {m}'], 'swap': ['fill {n} 5', 'swap {m}']}
    key = None
    for k in sorted(ops, key=len, reverse=True):
        if k in name:
            key = k
            break
    if key is None:
        info['native'] = 'no script template for this harness'
        return False
    for n in range(0, 5):
        for m in range(0, 5):
            script = '\n'.join(o.format(n=n, m=m) for o in ops[key]) + '\n'
            sp = os.path.join(wd, 'replay_script.txt')
            with open(sp, 'w') as fh:
                fh.write(script)
            rc, o = _run([exe, sp], timeout=60, env=env)
            if rc != 0 and ('CONFIRMED' in o or 'ERROR: AddressSanitizer' in o or 'runtime error' in o):
                info['native'] = {'input': 'lengths n=%d m=%d' % (n, m), 'script': script, 'outcome': 'CONFIRMED',
                                  'output': '\n'.join([l for l in o.split('\n') if 'CONFIRMED' in l or 'ERROR' in l or 'runtime error' in l][:6])}
                return True
    info['native'] = {'outcome': 'NOT-REPRODUCED', 'tried': 'all lengths 0..4 for the operation of the failing harness'}
    return False


def replay_resource(prop, result, fresh, wd, info):
    """A failed monitor obligation is one step from an invariant state, not a schedule.  The replay runs the REAL
    Resource.cpp against shim <mutex>/<condition_variable> headers and forces the two schedules the invariant exists to
    exclude (A/B: an admitted reader that is slow to wake up while its sibling finishes, with and without a queued writer;
    C: reader, writer, reader parked behind a writer; D: a reader arriving while a writer is parked; E: a reader arriving while only readers hold, after an
    earlier request had queued; F: a writer arriving in a second busy period while a reader holds)."""
    exe = os.path.join(wd, 'res_replay')
    cmd = ['g++', '-std=c++20', '-g', '-O0', '-DNDEBUG', '-Wno-volatile', '-isystem', os.path.join(ROOT, 'replay', 'shim'),
           '-I', os.path.join(REPO, 'include'), '-I', REPO, os.path.join(ROOT, 'replay', 'res_replay.cpp'), '-o', exe, '-lpthread']
    rc, out = _run(cmd, timeout=600)
    if rc != 0:
        info['native'] = 'replay driver does not build against the current tree: ' + out[-1500:]
        return False
    outs = {}
    for sc in ('A', 'B', 'C', 'D', 'E', 'F'):
        for attempt in range(2):
            rc, o = _run(['timeout', '60', exe, sc], timeout=90)
            outs[sc] = o.strip()[-300:]
            if 'CONFIRMED' in o:
                info['native'] = {'schedule': 'scenario ' + sc + ' of replay/res_replay.cpp', 'outcome': 'CONFIRMED', 'output': outs[sc]}
                return True
    info['native'] = {'outcome': 'NOT-REPRODUCED', 'tried': outs}
    return False


def replay_localeinfo(prop, result, fresh, wd, info):
    exe = os.path.join(wd, 'li_replay')
    cmd = ['g++', '-std=c++20', '-g', '-O0', '-fsanitize=address,undefined', '-fno-sanitize-recover=undefined', '-I', os.path.join(REPO, 'include'),
           os.path.join(ROOT, 'replay', 'li_replay.cpp'), os.path.join(REPO, 'src', 'LocaleInfo.cpp'), '-o', exe]
    rc, out = _run(cmd, timeout=600)
    if rc != 0:
        info['native'] = 'replay driver does not build against the current tree: ' + out[-1500:]
        return False
    # inputs derived from the shape of the counterexample classes the contract distinguishes: long parts, '.' before '_',
    # unknown language / unknown country / empty parts, well-formed names and codes
    inputs = ['@repeat:70:_GB', 'en_@repeat:70:', 'en_@repeat:64:', 'en_@repeat:63:', 'en_@repeat:65:', '@repeat:65:_GB', '@repeat:63:_GB', '@repeat:64:_GB', 'en.x_GB', 'a.b_c.d', 'zz_GB', 'en_ZZ', '_GB', 'en_', '_', 'en',
              'en_GB', 'en_GB.UTF-8', 'English_United States.1252', 'hu_HU', 'Chinese_China', 'zz_United Kingdom', 'en_GB_x', '.en_GB',
              'English_GB', 'Portuguese_Brazil.1252', 'Hungarian_HU', 'e_GB.UTF-8', 'en_G', 'en_', 'en_Unit', 'en_United', 'English_U', 'e_GB', 'Eng_GB', 'en_GBR', 'en_United Kingdom of', 'hu_H.UTF-8', 'en_g']
    env = dict(os.environ, ASAN_OPTIONS='detect_leaks=0:abort_on_error=0')
    for a in inputs:
        arg = a
        if '@repeat:' in a and not a.startswith('@repeat:'):
            pre, _, rest = a.partition('@repeat:')
            n, _, tail = rest.partition(':')
            arg = pre + 'a' * int(n) + tail
        rc, o = _run([exe, arg], timeout=60, env=env)
        if rc != 0 and ('CONFIRMED' in o or 'ERROR: AddressSanitizer' in o or 'runtime error' in o):
            info['native'] = {'input': a, 'outcome': 'CONFIRMED', 'output': '\n'.join([l for l in o.split('\n') if 'CONFIRMED' in l or 'ERROR' in l or 'runtime error' in l][:4])}
            return True
    info['native'] = {'outcome': 'NOT-REPRODUCED', 'tried': inputs}
    return False


def replay_thread(prop, result, fresh, wd, info):
    exe = os.path.join(wd, 'thr_replay')
    cmd = ['g++', '-std=c++20', '-g', '-O0', '-fsanitize=address', '-isystem', os.path.join(ROOT, 'replay', 'shim'), '-I', os.path.join(REPO, 'include'),
           '-I', REPO, os.path.join(ROOT, 'replay', 'thr_replay.cpp'), '-o', exe, '-lpthread']
    rc, out = _run(cmd, timeout=600)
    if rc != 0:
        info['native'] = 'replay driver does not build against the current tree: ' + out[-1500:]
        return False
    env = dict(os.environ, ASAN_OPTIONS='detect_stack_use_after_return=1:detect_leaks=0')
    for sc in ('fp', 'big'):
        rc, o = _run(['timeout', '30', exe, sc], timeout=60, env=env)
        if rc != 0 and ('CONFIRMED' in o or 'ERROR: AddressSanitizer' in o):
            info['native'] = {'schedule': 'new thread scheduled 100 ms after start() returned (shim <thread>), callable kind ' + sc, 'outcome': 'CONFIRMED',
                              'output': '\n'.join([l for l in o.split('\n') if 'CONFIRMED' in l or 'ERROR' in l][:3])}
            return True
    info['native'] = {'outcome': 'NOT-REPRODUCED', 'tried': 'late-scheduled thread with a function pointer and with a 64-byte callable'}
    return False


def replay_threadpool(prop, result, fresh, wd, info):
    exe = os.path.join(wd, 'tp_replay')
    cmd = ['g++', '-std=c++20', '-g', '-O0', '-Wno-volatile', '-isystem', os.path.join(ROOT, 'replay', 'shim'), '-I', os.path.join(REPO, 'include'),
           '-I', REPO, os.path.join(ROOT, 'replay', 'tp_replay.cpp'), '-o', exe, '-lpthread']
    rc, out = _run(cmd, timeout=600)
    if rc != 0:
        info['native'] = 'replay driver does not build against the current tree: ' + out[-1500:]
        return False
    for attempt in range(2):
        rc, o = _run(['timeout', '40', exe], timeout=60)
        if 'CONFIRMED' in o:
            info['native'] = {'schedule': 'worker held between its predicate check and its wait while stop() runs (shim condition_variable hook)',
                              'outcome': 'CONFIRMED', 'output': o.strip()[-300:]}
            return True
    # task ownership (C07): real threads, every task records its life events
    exe2 = os.path.join(wd, 'tp_tasks_replay')
    srcs = [os.path.join(REPO, 'src', 'threading', f) for f in ('ThreadPool.cpp', 'Thread.cpp', 'Runnable.cpp')]
    rc, out = _run(['g++', '-std=c++20', '-g', '-O0', '-I', os.path.join(REPO, 'include'), os.path.join(ROOT, 'replay', 'tp_tasks_replay.cpp')] + srcs + ['-o', exe2, '-pthread'], timeout=600)
    if rc == 0:
        for mode in ('stop', 'clear'):
            for attempt in range(2):
                rc, o = _run(['timeout', '40', exe2, mode], timeout=60)
                if 'CONFIRMED' in o:
                    info['native'] = {'schedule': 'tp_tasks_replay ' + mode + ' (one busy worker, three queued tasks, then ' + mode + '())', 'outcome': 'CONFIRMED', 'output': o.strip()[-300:]}
                    return True
    info['native'] = {'outcome': 'NOT-REPRODUCED', 'tried': 'stop() racing with a worker in the check-then-block window; stop()/clear() with a busy worker and queued tasks'}
    return False


def replay_subject(prop, result, fresh, wd, info):
    exe = os.path.join(wd, 'subj_replay')
    cmd = ['g++', '-std=c++20', '-g', '-O0', '-fsanitize=address', '-I', os.path.join(REPO, 'include'), os.path.join(ROOT, 'replay', 'subj_replay.cpp'), '-o', exe]
    rc, out = _run(cmd, timeout=600)
    if rc != 0:
        info['native'] = 'replay driver does not build against the current tree: ' + out[-1500:]
        return False
    env = dict(os.environ, ASAN_OPTIONS='detect_leaks=1')
    inputs = [['handle', 'foreign'], ['handle', 'stale']]
    for n in (1, 3):
        for k in range(n):
            inputs += [['pure', str(n), str(k), m, v] for m in '01' for v in '01']
            inputs += [['reent', str(n), str(k), a] for a in ('self_unsub', 'unsub_next', 'unsub_prev', 'self_invalidate', 'subscribe_new', 'self_mute', 'swap_next')]
    for a in inputs:
        rc, o = _run(['timeout', '30', exe] + a, timeout=60, env=env)
        if rc != 0 and ('CONFIRMED' in o or 'ERROR: AddressSanitizer' in o or 'ERROR: LeakSanitizer' in o):
            info['native'] = {'input': ' '.join(a), 'outcome': 'CONFIRMED',
                              'output': '\n'.join([l for l in o.split('\n') if 'CONFIRMED' in l or 'ERROR' in l or 'Subject.h' in l][:5])}
            return True
    info['native'] = {'outcome': 'NOT-REPRODUCED', 'tried': '%d histories: one observer muted/invalidated/self-unsubscribing/unsubscribing a neighbour/subscribing during notify, n in {1,3}' % len(inputs)}
    return False


def replay_router(prop, result, fresh, wd, info):
    exe = os.path.join(wd, 'rt_replay')
    srcs = [os.path.join(REPO, 'src', 'observer', 'routing', f) for f in ('SubjectRouter.cpp', 'RoutingLevelView.cpp', 'RoutingKey.cpp', 'RoutingKeyBuilder.cpp')]
    cmd = ['g++', '-std=c++20', '-g', '-O0', '-fsanitize=address', '-I', os.path.join(REPO, 'include'), os.path.join(ROOT, 'replay', 'rt_replay.cpp')] + srcs + ['-o', exe]
    rc, out = _run(cmd, timeout=900)
    if rc != 0:
        info['native'] = 'replay driver does not build against the current tree: ' + out[-1500:]
        return False
    env = dict(os.environ, ASAN_OPTIONS='detect_leaks=0')
    for mode in ('notify', 'shrink'):
        rc, o = _run(['timeout', '60', exe, mode], timeout=90, env=env)
        if rc != 0 and ('CONFIRMED' in o or 'ERROR: AddressSanitizer' in o):
            info['native'] = {'input': mode + ': six subscription keys, nine patterns, arguments int / struct / std::string passed as temporaries', 'outcome': 'CONFIRMED',
                              'output': '\n'.join([l for l in o.split('\n') if 'CONFIRMED' in l or 'ERROR' in l][:6])}
            return True
    info['native'] = {'outcome': 'NOT-REPRODUCED', 'tried': 'six subscription keys x nine patterns x three by-value signatures; shrink/exists/depth before and after'}
    return False


def replay_path(prop, result, fresh, wd, info):
    exe = os.path.join(wd, 'path_replay')
    srcs = [os.path.join(REPO, 'src', f) for f in ('Path.cpp', 'DirectoryVisitor.cpp', 'Exception.cpp')]
    cmd = ['g++', '-std=c++20', '-g', '-O0', '-fsanitize=address,undefined', '-I', os.path.join(REPO, 'include'), os.path.join(ROOT, 'replay', 'path_replay.cpp')] + srcs + ['-o', exe]
    rc, out = _run(cmd, timeout=900)
    if rc != 0:
        info['native'] = 'replay driver does not build against the current tree: ' + out[-1500:]
        return False
    rc, o = _run(['timeout', '120', exe], timeout=150, env=dict(os.environ, ASAN_OPTIONS='detect_leaks=0'))
    if rc != 0 and ('CONFIRMED' in o or 'ERROR: AddressSanitizer' in o or 'runtime error' in o):
        info['native'] = {'input': 'about 250 directory strings x 8 names (relative/absolute, trailing and doubled separators, dots, spaces, non-ASCII), '
                                   'the nine shortest strings, a DirectoryVisitor round trip', 'outcome': 'CONFIRMED',
                          'output': '\n'.join([l for l in o.split('\n') if 'CONFIRMED' in l or 'ERROR' in l or 'runtime error' in l][:6])}
        return True
    info['native'] = {'outcome': 'NOT-REPRODUCED', 'tried': 'systematic family of directory strings and names; DirectoryVisitor round trip'}
    return False


def replay_file(prop, result, fresh, wd, info):
    exe = os.path.join(wd, 'file_replay')
    srcs = [os.path.join(REPO, 'src', f) for f in ('File.cpp', 'Path.cpp', 'Exception.cpp')]
    cmd = ['g++', '-std=c++20', '-g', '-O0', '-fsanitize=address,undefined', '-I', os.path.join(REPO, 'include'), os.path.join(ROOT, 'replay', 'file_replay.cpp')] + srcs + ['-o', exe]
    rc, out = _run(cmd, timeout=900)
    if rc != 0:
        info['native'] = 'replay driver does not build against the current tree: ' + out[-1500:]
        return False
    rc, o = _run(['timeout', '120', exe], timeout=150, env=dict(os.environ, ASAN_OPTIONS='detect_leaks=0'))
    if rc != 0 and ('CONFIRMED' in o or 'ERROR: AddressSanitizer' in o or 'runtime error' in o):
        info['native'] = {'input': 'nine byte strings (empty, NUL, 0xFF, CR/LF, 70 kB) x three ways of splitting the writes x write/read modes x three stream positions; open errors',
                          'outcome': 'CONFIRMED', 'output': '\n'.join([l for l in o.split('\n') if 'CONFIRMED' in l or 'ERROR' in l or 'runtime error' in l][:6])}
        return True
    info['native'] = {'outcome': 'NOT-REPRODUCED', 'tried': 'byte strings x write splits x modes x stream positions; open errors'}
    return False


def replay_observable(prop, result, fresh, wd, info):
    exe = os.path.join(wd, 'obs_replay')
    cmd = ['g++', '-std=c++20', '-g', '-O0', '-fsanitize=address,undefined', '-I', os.path.join(REPO, 'include'), os.path.join(ROOT, 'replay', 'obs_replay.cpp'), '-o', exe]
    rc, out = _run(cmd, timeout=900)
    if rc != 0:
        info['native'] = 'replay driver does not build against the current tree: ' + out[-1500:]
        return False
    rc, o = _run(['timeout', '60', exe], timeout=90, env=dict(os.environ, ASAN_OPTIONS='detect_leaks=0'))
    if rc != 0 and ('CONFIRMED' in o or 'ERROR: AddressSanitizer' in o or 'runtime error' in o):
        info['native'] = {'input': 'every operator of Observable<int> (std::equal_to, always-equal, never-equal), Observable<double, tolerance>, Observable<std::string>',
                          'outcome': 'CONFIRMED', 'output': '\n'.join([l for l in o.split('\n') if 'CONFIRMED' in l or 'ERROR' in l or 'runtime error' in l][:6])}
        return True
    info['native'] = {'outcome': 'NOT-REPRODUCED', 'tried': 'operators x value types x equalities'}
    return False


HOOKS = {'observable': replay_observable, 'file': replay_file, 'path': replay_path, 'router': replay_router, 'subject': replay_subject, 'threadpool': replay_threadpool, 'thread': replay_thread, 'localeinfo': replay_localeinfo, 'resource': replay_resource, 'ringbuffer': replay_ringbuffer, 'array': replay_array, 'arrayb': replay_array}


def make_replay(prop, result, fresh, wd, tier):
    rd = os.path.join(ROOT, '.work', 'replay')
    os.makedirs(rd, exist_ok=True)
    path = os.path.join(rd, '%s_%s.replay.json' % (prop, result['name']))
    info = {
        'property': prop, 'harness': result['name'], 'component': result.get('component'),
        'function_under_contract': result.get('enforce'),
        'failed_obligations': [{k: f.get(k) for k in ('property', 'description', 'function', 'file', 'line', 'clause')} for f in fresh],
        'verifier_commands': result.get('cmds'),
        'counterexample': [{'obligation': f.get('property'), 'assignments': (f.get('trace') or [])[-120:]} for f in fresh[:3]],
        'how_to_replay': 'cd /verif && ./check %s   (re-lowers /repo and re-runs the harness %s); native scripts run with '
                         '.work/%s/rb_replay <script>' % (prop, result['name'], prop),
    }
    confirmed = False
    hook = HOOKS.get(result.get('component'))
    if hook is not None:
        try:
            confirmed = hook(prop, result, fresh, wd, info)
        except Exception as e:      # the replay is an aid; its failure never hides the violation
            info['native'] = 'replay hook failed: %r' % (e,)
    else:
        info['native'] = 'no native replay driver for this component'
    info['confirmed_on_real_code'] = bool(confirmed)
    with open(path, 'w') as fh:
        json.dump(info, fh, indent=1)
    return {'path': path, 'confirmed': confirmed}
