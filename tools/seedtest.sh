#!/bin/bash
# usage: tools/seedtest.sh <seed-id> <property> <worktree> <patch> <demo.cpp> [extra g++ flags]
# Confirms a seeded change (builds, existing tests pass, demo fails with / passes without) and runs ./check against it.
set -u
ID=$1; PROP=$2; WT=$3; PATCH=$4; DEMO=$5; shift 5; XF="$*"
OUT=/verif/seeded/$ID; mkdir -p $OUT
cp $PATCH $OUT/patch.diff; cp $DEMO $OUT/demo.cpp
cd $WT && git checkout -q -- include src 2>/dev/null
g++ -std=c++20 -I include $XF $OUT/demo.cpp -o /tmp/seed_demo_clean_$ID >/dev/null 2>&1 && timeout 120 /tmp/seed_demo_clean_$ID >/dev/null 2>&1; CLEAN=$?
git apply $OUT/patch.diff || { echo "patch does not apply"; exit 3; }
[ -d _build ] || cmake -G Ninja -S . -B _build -DTULZ_ENABLE_TESTS=ON -DFETCHCONTENT_SOURCE_DIR_GOOGLETEST=/usr/src/googletest -DCMAKE_BUILD_TYPE=RelWithDebInfo >/dev/null 2>&1
cmake --build _build >/dev/null 2>&1; BUILD=$?
TESTS=$(ctest --test-dir _build -j8 --timeout 900 2>&1 | grep "tests passed\|tests failed" | head -1)
g++ -std=c++20 -I include $XF $OUT/demo.cpp -o /tmp/seed_demo_mut_$ID >/dev/null 2>&1 && timeout 120 /tmp/seed_demo_mut_$ID >/dev/null 2>&1; MUT=$?
echo "build=$BUILD tests='$TESTS' demo_clean_exit=$CLEAN demo_patched_exit=$MUT"
if [ -n "${SKIP_CHECK:-}" ]; then echo "build=$BUILD tests='$TESTS' demo_clean_exit=$CLEAN demo_patched_exit=$MUT" > $OUT/confirm.txt; cd $WT && git checkout -q -- include src; exit 0; fi
cd /verif && TULZ_REPO=$WT ./check $PROP > $OUT/check_output.txt 2>&1; RC=$?
grep "VIOLATION\|FAILED-OBLIGATION\|OK property\|UNDECIDED\|KNOWN" $OUT/check_output.txt | cut -c1-260 | head -12
echo "check_exit=$RC"
cd $WT && git checkout -q -- include src
rm -f /tmp/seed_demo_clean_$ID /tmp/seed_demo_mut_$ID
cat > $OUT/run.txt <<EOT
build=$BUILD tests='$TESTS' demo_clean_exit=$CLEAN demo_patched_exit=$MUT check_exit=$RC
EOT
