#!/bin/bash
# usage: tools/seedcheck.sh <seed-id> <property> [worktree]   -- runs the registered quick check against the seeded change
# (patch applied in a scratch worktree, never in /repo), records check_output.txt / run.txt, reverts the worktree.
ID=$1; PROP=$2; WT=${3:-/tmp/wt-seed}; OUT=/verif/seeded/$ID
# the scratch worktree is created on demand (remove it afterwards: git -C /repo worktree remove --force $WT)
[ -d "$WT" ] || git -C /repo worktree add -q --detach "$WT" HEAD || exit 3
cd $WT && git checkout -q -- include src && git apply $OUT/patch.diff || { echo "patch does not apply"; exit 3; }
cd /verif && TULZ_REPO=$WT ./check $PROP > $OUT/check_output.txt 2>&1; RC=$?
grep "VIOLATION\|FAILED-OBLIGATION\|OK property\|UNDECIDED\|KNOWN\|TOOL-FAILURE" $OUT/check_output.txt | cut -c1-300 | head -12
echo "check_exit=$RC"
cd $WT && git checkout -q -- include src
C=$(cat $OUT/confirm.txt 2>/dev/null)
echo "$C check_exit=$RC" > $OUT/run.txt
