#include <stddef.h>
#include <stdint.h>
#include <stdlib.h>
typedef long ssize_t_;
enum { RAW = 0, LIVE = 1, SHELL = 2 };
typedef struct { uint32_t serial; uint32_t life; } Elem;
struct RB { ssize_t_ m_pos; size_t m_size; size_t m_capacity; Elem *m_data; };
#ifndef CAP_MAX
#define CAP_MAX ((size_t)1 << 30)
#endif
#define SCAP(s) ((ssize_t_)(s)->m_capacity)
#define WF(s) ((s)->m_capacity >= 1 && (s)->m_capacity <= CAP_MAX && (s)->m_size <= (s)->m_capacity && 0 <= (s)->m_pos && (s)->m_pos < SCAP(s))
#define PHYS(pos,k,cap) (((pos)+(ssize_t_)(k)) >= (ssize_t_)(cap) ? ((pos)+(ssize_t_)(k)) - (ssize_t_)(cap) : ((pos)+(ssize_t_)(k)))
/* logical index of physical slot p (0 <= p < cap) */
#define LOGI(pos,p,cap) ((ssize_t_)(p) >= (pos) ? (size_t)((ssize_t_)(p) - (pos)) : (size_t)((ssize_t_)(p) - (pos) + (ssize_t_)(cap)))

/* ---- ghost: one watched physical slot of the buffer that exists at entry ---- */
size_t g_wp;            /* watched physical slot of the OLD buffer */
size_t g_wl, g_size0;   /* its logical index and the size at entry (ghost constants) */
size_t g_wobj;          /* object id of the OLD buffer (integer ghost) */
#define IS_WATCH(e) (__CPROVER_POINTER_OBJECT(e) == g_wobj && __CPROVER_POINTER_OFFSET(e) == g_wp * sizeof(Elem))
size_t g_dtor_calls;    /* destructor calls on the watched slot */
size_t g_reloc_obj, g_reloc_off; _Bool g_reloc; /* where the watched element's bytes were copied to */
size_t g_reloc_count;

void Elem_dtor(Elem *e) {
  if (IS_WATCH(e)) { __CPROVER_assert(e->life != RAW, "C09 destructor runs on storage that holds an element"); g_dtor_calls++; }
  e->life = RAW;
}
ssize_t_ modCap(const struct RB *self, ssize_t_ index)
__CPROVER_requires(__CPROVER_r_ok(self, sizeof(*self)))
__CPROVER_requires(self->m_capacity >= 1 && self->m_capacity <= CAP_MAX)
__CPROVER_requires(-SCAP(self) <= index && index < 2*SCAP(self))
__CPROVER_ensures(__CPROVER_return_value == (index < 0 ? index + SCAP(self) : (index >= SCAP(self) ? index - SCAP(self) : index)))
__CPROVER_assigns()
;
/* memcpy over whole elements (the lowered call passes n*sizeof(T)); relocation ghost for the watched element */
/* typed view of memcpy for whole elements: the lowering maps std::memcpy(d, s, k*sizeof(T)) on T* operands to this */
#define SRCIDX(src) (__CPROVER_POINTER_OFFSET(src) / sizeof(Elem))
void *verif_memcpy(Elem *dst, const Elem *src, size_t n)
__CPROVER_requires(n == 0 || (__CPROVER_w_ok(dst, n) && __CPROVER_r_ok(src, n)))
__CPROVER_requires(n % sizeof(Elem) == 0 && __CPROVER_POINTER_OFFSET(src) % sizeof(Elem) == 0 && __CPROVER_POINTER_OFFSET(dst) % sizeof(Elem) == 0)
__CPROVER_assigns(n > 0: __CPROVER_object_upto(dst, n); g_reloc; g_reloc_obj; g_reloc_off; g_reloc_count)
__CPROVER_ensures(__CPROVER_return_value == dst)
__CPROVER_ensures((n > 0 && __CPROVER_POINTER_OBJECT(src) == g_wobj && g_wp >= SRCIDX(src) && g_wp < SRCIDX(src) + n / sizeof(Elem)) ?
    (g_reloc && g_reloc_obj == __CPROVER_POINTER_OBJECT(dst)
     && g_reloc_off == __CPROVER_POINTER_OFFSET(dst) + (g_wp - SRCIDX(src)) * sizeof(Elem)
     && g_reloc_count == __CPROVER_old(g_reloc_count) + 1
     && dst[g_wp - SRCIDX(src)].serial == src[g_wp - SRCIDX(src)].serial
     && dst[g_wp - SRCIDX(src)].life == src[g_wp - SRCIDX(src)].life)
  : (g_reloc == __CPROVER_old(g_reloc) && g_reloc_obj == __CPROVER_old(g_reloc_obj) && g_reloc_off == __CPROVER_old(g_reloc_off) && g_reloc_count == __CPROVER_old(g_reloc_count)))
;
static Elem *rb_alloc(size_t n) { return (Elem*)malloc(n * sizeof(Elem)); }
static Elem *rb_realloc(Elem *old, size_t n) { return (Elem*)realloc(old, n * sizeof(Elem)); }
_Bool g_freed_old;
static void rb_free(Elem *d) {
  /* freeing a buffer: its watched slot must not hold an element that was neither destroyed nor relocated */
  if (d != 0 && __CPROVER_POINTER_OBJECT(d) == g_wobj) {
    __CPROVER_assert(d[g_wp].life != LIVE || (g_reloc && g_dtor_calls == 0), "C09 no live element is abandoned when a buffer is freed");
    g_freed_old = 1;
  }
  free(d);
}
static size_t min_sz(size_t a, size_t b) { return b < a ? b : a; }
static ssize_t_ dataIndex(const struct RB *self, ssize_t_ index) { return modCap(self, self->m_pos + index); }

static void silentCopy(struct RB *self, Elem *dst, size_t n) {
  size_t n1 = min_sz(n, self->m_capacity - self->m_pos);
  verif_memcpy(dst, self->m_data + self->m_pos, n1 * sizeof(Elem));
  size_t n2 = n - n1;
  verif_memcpy(dst + n1, self->m_data + modCap(self, self->m_pos + n1), n2 * sizeof(Elem));
}

void resize(struct RB *self, size_t newCapacity)
__CPROVER_requires(__CPROVER_is_fresh(self, sizeof(*self)) && WF(self))
__CPROVER_requires(__CPROVER_is_fresh(self->m_data, self->m_capacity * sizeof(Elem)))
__CPROVER_requires(newCapacity >= 1 && newCapacity <= CAP_MAX && newCapacity < self->m_capacity)
/* watched slot and the slot invariant instantiated at it */
__CPROVER_requires(g_wp < self->m_capacity && g_wobj == __CPROVER_POINTER_OBJECT(self->m_data) && g_dtor_calls == 0 && !g_reloc && g_reloc_count == 0 && !g_freed_old)
__CPROVER_requires(g_wl == LOGI(self->m_pos, g_wp, self->m_capacity) && g_size0 == self->m_size)
__CPROVER_requires(LOGI(self->m_pos, g_wp, self->m_capacity) < self->m_size ? self->m_data[g_wp].life == LIVE : self->m_data[g_wp].life != LIVE)
__CPROVER_assigns(self->m_pos, self->m_size, self->m_capacity, self->m_data, __CPROVER_object_whole(self->m_data), g_dtor_calls, g_reloc, g_reloc_obj, g_reloc_off, g_reloc_count, g_freed_old)
__CPROVER_frees(self->m_data)
__CPROVER_ensures(WF(self) && self->m_capacity == newCapacity)
/* exactly the logical tail [newCapacity, size) is destroyed, each element once; nothing else is */
__CPROVER_ensures(g_dtor_calls == ((g_wl < g_size0 && g_wl >= newCapacity) ? 1 : 0))
__CPROVER_ensures((g_wl < g_size0 && g_wl < newCapacity) ==> (self->m_data[PHYS(self->m_pos, g_wl, self->m_capacity)].life == LIVE))
{
  if (newCapacity == self->m_capacity) return;
  ssize_t_ lastIndex = modCap(self, self->m_pos + (ssize_t_)self->m_size - 1);
  if (self->m_pos <= lastIndex && (size_t)lastIndex < newCapacity) {
    self->m_data = rb_realloc(self->m_data, newCapacity);
  } else if (newCapacity < self->m_capacity) {
    Elem *newData = rb_alloc(newCapacity);
    size_t copyCount = min_sz(self->m_size, newCapacity);
    size_t deleteCount = self->m_size - copyCount;
    silentCopy(self, newData, copyCount);
    for (size_t i = 0; i < deleteCount; ++i)
      __CPROVER_assigns(i, g_dtor_calls, __CPROVER_object_whole(self->m_data))
      __CPROVER_loop_invariant(i <= deleteCount)
      __CPROVER_loop_invariant(g_dtor_calls == ((g_wl >= copyCount && g_wl < copyCount + i) ? 1 : 0))
      __CPROVER_loop_invariant((g_wl >= copyCount + i && g_wl < self->m_size) ==> self->m_data[g_wp].life == LIVE)
      __CPROVER_loop_invariant((g_wl < copyCount) ==> (self->m_data[g_wp].life == LIVE && g_reloc))
      __CPROVER_loop_invariant((g_wl >= self->m_size) ==> self->m_data[g_wp].life != LIVE)
      __CPROVER_loop_invariant((g_wl >= copyCount && g_wl < copyCount + i) ==> self->m_data[g_wp].life == RAW)
      __CPROVER_decreases(deleteCount - i)
    {
#ifdef FIX
      Elem_dtor(&self->m_data[dataIndex(self, (ssize_t_)(copyCount + i))]);
#else
      Elem_dtor(&self->m_data[copyCount + i]);
#endif
    }
    rb_free(self->m_data);
    self->m_data = newData;
    self->m_size = copyCount;
    self->m_pos = 0;
  } else {
    Elem *newData = rb_alloc(newCapacity);
    silentCopy(self, newData, self->m_size);
    rb_free(self->m_data);
    self->m_data = newData;
    self->m_pos = 0;
  }
  self->m_capacity = newCapacity;
}
void harness(void){ struct RB *rb; size_t n; resize(rb, n); }
