#include <stddef.h>
#include <stdint.h>
#include <stdlib.h>
typedef enum { OpType_None, OpType_Read, OpType_Write } OpType;
typedef int64_t Id;
typedef struct { OpType type; Id upperBound; } Operation;
#define QMAXMAX ((size_t)1<<20)
size_t g_qcap;
#define QMAX g_qcap
typedef struct { Operation *items; size_t head; size_t len; } deque_Operation;
typedef struct { int d; } std_mutex; typedef struct { int d; } std_cv;
struct Resource { deque_Operation m_queue; OpType m_activeOp; size_t m_activeCount; Id m_idCounter; Id m_upperUnlockBound; std_mutex m_mutex; std_cv m_cv; };

/* ---- deque spec model ---- */
_Bool dq_empty(const deque_Operation *q){ return q->len == 0; }
void dq_push_back(deque_Operation *q, Operation x){ __CPROVER_assume(q->head + q->len < QMAX); q->items[q->head + q->len] = x; q->len++; }
Operation *dq_back(deque_Operation *q){ __CPROVER_assert(q->len>0,"back on non-empty"); return &q->items[q->head + q->len - 1]; }
Operation *dq_front(deque_Operation *q){ __CPROVER_assert(q->len>0,"front on non-empty"); return &q->items[q->head]; }
extern int g_tst; extern size_t g_tk; _Bool g_popped_watched;
void dq_pop_front(deque_Operation *q){ __CPROVER_assert(q->len>0,"pop on non-empty"); q->head++; q->len--; if (g_tst == 1) { if (g_tk == 0) g_popped_watched = 1; else g_tk--; } }

/* ---- ghost ---- */
size_t g_hR, g_hW, g_asleep;     /* holders; admitted-but-not-returned tickets other than the watched one */
enum { T_NONE, T_WAIT, T_ADM }; int g_tst; Id g_tid; OpType g_ttype; size_t g_tk; _Bool g_me; /* watched ticket */
#define WADM ((size_t)(g_tst == T_ADM))
OpType g_myType; _Bool g_waited; Id g_myId; int g_mode; /* 0=lock 1=unlock */
struct Resource *g_self; Id g_bound_at_lock; int g_tst_at_lock;
#define ITEM(s,k) ((s)->m_queue.items[(s)->m_queue.head+(k)])
_Bool INV(const struct Resource *s) {
  size_t len = s->m_queue.len;
  return s->m_queue.head <= QMAX && len <= QMAX - s->m_queue.head
   && s->m_activeCount == g_hR + g_hW + g_asleep + WADM
   && (s->m_activeOp == OpType_None || s->m_activeOp == OpType_Read || s->m_activeOp == OpType_Write)
   && ((s->m_activeOp == OpType_None) == (s->m_activeCount == 0))
   && (s->m_activeOp == OpType_None ==> (len == 0 && s->m_idCounter == 0 && s->m_upperUnlockBound == 0))
   && (s->m_activeOp == OpType_Write ==> (s->m_activeCount == 1 && g_hR == 0))
   && (s->m_activeOp == OpType_Read ==> g_hW == 0)
   && 0 <= s->m_upperUnlockBound && s->m_upperUnlockBound <= s->m_idCounter
   && ((len == 0) == (s->m_upperUnlockBound == s->m_idCounter))
   && (len > 0 ==> (ITEM(s,len-1).upperBound == s->m_idCounter
                 && ITEM(s,0).upperBound > s->m_upperUnlockBound
                 && (ITEM(s,0).type == OpType_Read || ITEM(s,0).type == OpType_Write)
                 && (ITEM(s,0).type == OpType_Write ==> ITEM(s,0).upperBound == s->m_upperUnlockBound + 1)
                 && (ITEM(s,0).type == OpType_Read ==> s->m_activeOp == OpType_Write)
                 && s->m_activeCount > 0));
}

size_t g_j; /* ghost: arbitrary adjacent pair index */
_Bool PAIR(const struct Resource *s, size_t j){
  return (j + 1 < s->m_queue.len) ==> (
      ITEM(s,j+1).upperBound > ITEM(s,j).upperBound
   && (ITEM(s,j+1).type == OpType_Read || ITEM(s,j+1).type == OpType_Write)
   && (ITEM(s,j+1).type == OpType_Write ==> ITEM(s,j+1).upperBound == ITEM(s,j).upperBound + 1)
   && !(ITEM(s,j).type == OpType_Read && ITEM(s,j+1).type == OpType_Read));
}

_Bool UB(const struct Resource *s, size_t j){
  return (j < s->m_queue.len) ==> (ITEM(s,j).upperBound <= s->m_idCounter && (j + 1 < s->m_queue.len ==> ITEM(s,j).upperBound < s->m_idCounter));
}


size_t g_a, g_b; /* ghost: arbitrary ordered pair of queue positions */
_Bool MONO(const struct Resource *s, size_t a, size_t b){
  return (a < b && b < s->m_queue.len) ==> ITEM(s,a).upperBound < ITEM(s,b).upperBound;
}
_Bool JT(const struct Resource *s){
  return (g_tst == T_NONE || g_tst == T_WAIT || g_tst == T_ADM)
   && (g_tst == T_WAIT ==> (s->m_upperUnlockBound <= g_tid && g_tid < s->m_idCounter
        && g_tk < s->m_queue.len && ITEM(s,g_tk).type == g_ttype && g_tid < ITEM(s,g_tk).upperBound
        && (g_tk == 0 ? s->m_upperUnlockBound <= g_tid : ITEM(s,g_tk-1).upperBound <= g_tid)
        && (g_ttype == OpType_Read || g_ttype == OpType_Write)))
   && (g_tst == T_ADM ==> (g_tid < s->m_upperUnlockBound && s->m_activeOp == g_ttype));
}
_Bool BOUNDS(const struct Resource *s){ return g_hR < ((size_t)1<<40) && g_hW < ((size_t)1<<40) && g_asleep < ((size_t)1<<40) && s->m_idCounter < ((Id)1<<62) && g_j < QMAXMAX && g_a < QMAXMAX && g_b < QMAXMAX; }
void havoc_shared(struct Resource *s){
  struct Resource n; size_t a,b,c;
  s->m_queue.items = malloc(QMAX*sizeof(Operation)); /* fresh object: nondeterministic contents */
  s->m_queue.head = n.m_queue.head; s->m_queue.len = n.m_queue.len;
  s->m_activeOp = n.m_activeOp; s->m_activeCount = n.m_activeCount; s->m_idCounter = n.m_idCounter; s->m_upperUnlockBound = n.m_upperUnlockBound;
  g_hR=a; g_hW=b; g_asleep=c; { int st; Id tid; OpType tt; size_t tk; g_tst=st; g_tid=tid; g_ttype=tt; g_tk=tk; }
}
/* ---- sync primitive specs ---- */
void mutex_lock(std_mutex *m){
  struct Resource *s = g_self;
  havoc_shared(s); __CPROVER_assume(BOUNDS(s) && INV(s) && PAIR(s,0) && PAIR(s,g_j) && PAIR(s,g_j+1) && UB(s,0) && UB(s,1) && UB(s,g_j) && UB(s,g_j+1) && UB(s,g_a) && UB(s,g_b) && MONO(s,g_a,g_b) && MONO(s,g_a+1,g_b+1) && (g_tst==T_WAIT ==> (MONO(s,0,g_tk) && (g_tk>0 ==> MONO(s,0,g_tk-1)))) && JT(s) && (g_tst==T_WAIT ==> (PAIR(s,g_tk) && UB(s,g_tk) && (g_tk>0 ==> (PAIR(s,g_tk-1) && UB(s,g_tk-1))))) && (s->m_queue.len>=2 ==> PAIR(s,s->m_queue.len-2)));
  g_bound_at_lock = s->m_upperUnlockBound; g_popped_watched = 0; g_tst_at_lock = g_tst;
  if (g_mode == 0 && g_me) __CPROVER_assume(g_tst == T_NONE); /* the owner has not issued its ticket yet */
  if (g_mode == 1) { /* caller of unlock() is a holder of g_myType; it stops being one now */
    __CPROVER_assume(g_myType == OpType_Read ? g_hR >= 1 : g_hW >= 1);
    if (g_myType == OpType_Read) g_hR--; else g_hW--;
  }
}
void mutex_unlock(std_mutex *m){
  struct Resource *s = g_self;
  if (g_mode == 0) { /* lock() returning: caller becomes holder */
    if (g_waited) {
      if (g_me) { __CPROVER_assert(g_tst == T_ADM, "owner returns only when admitted"); g_tst = T_NONE; }
      else { __CPROVER_assert(g_asleep >= 1, "admitted waiter is accounted"); g_asleep--; }
    }
    if (g_myType == OpType_Read) g_hR++; else g_hW++;
  } else {
    /* tickets in [old bound, new bound) have just been admitted */
    if (s->m_upperUnlockBound > g_bound_at_lock) {
      size_t n = (size_t)(s->m_upperUnlockBound - g_bound_at_lock);
      if (g_tst == T_WAIT && g_tid < s->m_upperUnlockBound) { g_tst = T_ADM; g_asleep += n - 1; }
      else g_asleep += n;
    }
    __CPROVER_assert(s->m_upperUnlockBound >= g_bound_at_lock ||
       (s->m_upperUnlockBound == 0 && s->m_idCounter == 0 && g_asleep == 0 && g_tst == T_NONE && s->m_queue.len == 0),
       "C02/C03 admission bound is monotone, reset only when no ticket is outstanding");
    __CPROVER_assert(g_popped_watched ==> g_tst == T_ADM, "C03 the entry covering a ticket is popped only by admitting it");
  }
  __CPROVER_assert(INV(s), "monitor invariant at mutex release");
  __CPROVER_assert(PAIR(s,g_j), "queue pair invariant at mutex release");
  __CPROVER_assert(UB(s,g_j), "queue bound invariant at mutex release");
  __CPROVER_assert(JT(s), "per-ticket invariant at mutex release");
  __CPROVER_assert(MONO(s,g_a,g_b), "queue monotone invariant at mutex release");
  __CPROVER_assert(g_tst == T_NONE ==> (g_tst_at_lock == T_NONE || (g_mode == 0 && g_me)), "only its owner retires a ticket");
  __CPROVER_assert(!(g_hW >= 1 && (g_hR >= 1 || g_hW >= 2)), "C01 mutual exclusion");
}
void cv_wait_pred_id_lt_bound(std_cv *cv, std_mutex *m, Id id){
  struct Resource *s = g_self;
  if (id < s->m_upperUnlockBound) return;            /* while(!pred()) wait(): predicate already true */
  if (g_me) { g_tst = T_WAIT; g_tid = id; g_ttype = g_myType; g_tk = s->m_queue.len - 1; }
  __CPROVER_assert(INV(s), "monitor invariant at wait");
  __CPROVER_assert(PAIR(s,g_j), "queue pair invariant at wait");
  __CPROVER_assert(UB(s,g_j), "queue bound invariant at wait");
  __CPROVER_assert(JT(s), "per-ticket invariant at wait");
  __CPROVER_assert(MONO(s,g_a,g_b), "queue monotone invariant at wait");
  __CPROVER_assert(s->m_upperUnlockBound <= id && id < s->m_idCounter, "ticket registered");
  int st_before = g_tst;
  havoc_shared(s);
  __CPROVER_assume(BOUNDS(s) && INV(s) && PAIR(s,0) && PAIR(s,g_j) && PAIR(s,g_j+1) && UB(s,0) && UB(s,1) && UB(s,g_j) && UB(s,g_j+1) && UB(s,g_a) && UB(s,g_b) && MONO(s,g_a,g_b) && MONO(s,g_a+1,g_b+1) && (g_tst==T_WAIT ==> (MONO(s,0,g_tk) && (g_tk>0 ==> MONO(s,0,g_tk-1)))) && JT(s) && (g_tst==T_WAIT ==> (PAIR(s,g_tk) && UB(s,g_tk) && (g_tk>0 ==> (PAIR(s,g_tk-1) && UB(s,g_tk-1))))));
  __CPROVER_assume(id < s->m_upperUnlockBound);
  if (g_me) {
    /* owner knowledge: nobody else retires or re-issues my ticket */
    __CPROVER_assume(g_tst != T_NONE && g_tid == id && g_ttype == g_myType);
    __CPROVER_assert(g_tst == T_ADM && s->m_activeOp == g_myType, "C03 an admitted ticket sees its own kind active (derived, not assumed)");
  } else {
    /* instance of the per-ticket invariant for the acting thread's own (unwatched) ticket */
    __CPROVER_assume(g_asleep >= 1 && s->m_activeOp == g_myType);
    __CPROVER_assume(!(g_tst != T_NONE && g_tid == id));
  }
  g_bound_at_lock = s->m_upperUnlockBound; g_tst_at_lock = g_tst; g_popped_watched = 0;
  g_waited = 1; g_myId = id;
}
_Bool g_notified;
void cv_notify_all(std_cv *cv){ g_notified = 1; }

/* ---- lowered code (hand-lowered for the probe) ---- */
void Resource_enqueue(struct Resource *self, OpType opType) {
  if (dq_empty(&self->m_queue) || opType == OpType_Write) {
    dq_push_back(&self->m_queue, (Operation){.type = opType, .upperBound = self->m_idCounter});
  } else {
    Operation *op = dq_back(&self->m_queue);
    if (op->type == OpType_Read) { op->upperBound = self->m_idCounter; }
    else { dq_push_back(&self->m_queue, (Operation){.type = OpType_Read, .upperBound = self->m_idCounter}); }
  }
}
void Resource_select(struct Resource *self) {
  if (dq_empty(&self->m_queue)) {
    self->m_activeOp = OpType_None; self->m_idCounter = 0; self->m_upperUnlockBound = 0; return;
  }
  Operation op = *dq_front(&self->m_queue);
  dq_pop_front(&self->m_queue);
  self->m_activeOp = op.type;
#ifdef FIXA
  self->m_activeCount = (size_t)(op.upperBound - self->m_upperUnlockBound);
#endif
  self->m_upperUnlockBound = op.upperBound;
}
void Resource_lock(struct Resource *self, OpType opType) {
  mutex_lock(&self->m_mutex);
  if (dq_empty(&self->m_queue) && (self->m_activeOp == OpType_None || (self->m_activeOp == opType && opType == OpType_Read))) {
    self->m_activeOp = opType;
#ifdef FIXA
    ++self->m_activeCount;
#endif
  } else {
    Id id = self->m_idCounter++;
    Resource_enqueue(self, opType);
    cv_wait_pred_id_lt_bound(&self->m_cv, &self->m_mutex, id);
  }
#ifndef FIXA
  ++self->m_activeCount;
#endif
  mutex_unlock(&self->m_mutex);
}
void Resource_unlock(struct Resource *self, OpType opType) {
  mutex_lock(&self->m_mutex);
  __CPROVER_assert(self->m_activeOp == opType, "assert(m_activeOp == opType)");
  if (--self->m_activeCount == 0) {
    Resource_select(self);
    mutex_unlock(&self->m_mutex);
    cv_notify_all(&self->m_cv);
  } else {
    mutex_unlock(&self->m_mutex);
  }
}

static struct Resource *mk(void){
  size_t qc; __CPROVER_assume(qc>=1 && qc<=QMAXMAX); g_qcap=qc;
  struct Resource *r = malloc(sizeof(*r)); __CPROVER_assume(r);
  r->m_queue.items = malloc(QMAX*sizeof(Operation)); __CPROVER_assume(r->m_queue.items);
  g_self = r; return r;
}
void h_lock(void){ struct Resource *r = mk(); OpType t; _Bool me; g_me = me; __CPROVER_assume(t==OpType_Read||t==OpType_Write); g_mode=0; g_myType=t; g_waited=0; Resource_lock(r,t); }
void h_unlock(void){ struct Resource *r = mk(); OpType t; g_me = 0; __CPROVER_assume(t==OpType_Read||t==OpType_Write); g_mode=1; g_myType=t; Resource_unlock(r,t); }
