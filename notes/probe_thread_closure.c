#include <stdlib.h>
/* lowered shape of Thread::start(T ptr, Args&&... args) with T = function pointer, Args = int& */
typedef void (*fn_t)(int *);
struct Thread { _Bool m_isFinished; };
struct closure { fn_t *ptr_ref;  /* [&] captures the parameter by reference */
                 int **args_ref; struct Thread *self; };
struct closure g_stored; _Bool g_have;
int g_calls;
void callee(int *x) { g_calls++; }
static void closure_call(struct closure *c) { (*c->ptr_ref)(*c->args_ref); c->self->m_isFinished = 1; }
static void std_thread_ctor(struct closure c) { g_stored = c; g_have = 1; }   /* contract: stores a copy, runs later */
void Thread_start(struct Thread *self, fn_t ptr_in, int *args_in) {
  fn_t ptr = ptr_in; int *args = args_in;
  struct closure c = { &ptr, &args, self };
  std_thread_ctor(c);
}
void harness(void) {
  struct Thread t = {0}; int v = 5;
  Thread_start(&t, callee, &v);
  closure_call(&g_stored);            /* the new thread is scheduled after start() returned */
  __CPROVER_assert(g_calls == 1 && t.m_isFinished, "ran once");
}
