#include <stddef.h>
#include <stdlib.h>
struct _info { const char *value; const char *code; };
/* tables elided: generated from /repo/src/LocaleInfo.cpp */
#define NLANG (sizeof(languageInfo)/sizeof(languageInfo[0]))
/* spec strcmp against a 64-byte buffer: table string a (constant), b = buffer */
int spec_strcmp(const char *a, const char *b) {
  size_t k;
  for (k = 0; k < 64; ++k) {
    unsigned char ca = a[k], cb = b[k];
    if (ca != cb) return ca < cb ? -1 : 1;
    if (ca == 0) return 0;
  }
  return 0;
}
size_t g_i; _Bool g_seen; _Bool g_mc; const char *g_last_code;
void list_emplace_back(const char *s){ if (s == languageInfo[g_i].value) g_seen = 1; }
const char *lang_loop(const char *buffer)
__CPROVER_requires(__CPROVER_is_fresh(buffer, 64) && buffer[63] == 0)
__CPROVER_requires(g_i < NLANG && g_seen == 0)
__CPROVER_requires(g_mc == (spec_strcmp(languageInfo[g_i].code, buffer) == 0))
__CPROVER_assigns(g_seen)
/* by-code lookup: the watched table entry is reported iff its code equals the buffer (when no name matched earlier) */
__CPROVER_ensures(g_mc ==> (g_seen || (__CPROVER_return_value != 0 && __CPROVER_return_value != languageInfo[g_i].code)))
{
  const char *languageCode = 0;
  for (size_t i = 0; i < NLANG; ++i)
    __CPROVER_assigns(i, languageCode, g_seen)
    __CPROVER_loop_invariant(i <= NLANG)
    __CPROVER_loop_invariant((g_i < i && g_mc) ==> g_seen)
    __CPROVER_decreases(NLANG - i)
  {
    const struct _info *inf = &languageInfo[i];
    if (spec_strcmp(inf->code, buffer) == 0) { languageCode = inf->code; list_emplace_back(inf->value); }
    else if (spec_strcmp(inf->value, buffer) == 0) { languageCode = inf->code; list_emplace_back(inf->value); break; }
  }
  return languageCode;
}
void harness(void){ const char *b; lang_loop(b); }
