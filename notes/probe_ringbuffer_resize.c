#include <stddef.h>
#include <stdint.h>
#include <stdlib.h>
typedef long ssize_t_;
typedef struct { unsigned serial; } Elem;
struct RB { ssize_t_ m_pos; size_t m_size; size_t m_capacity; Elem *m_data; };
#ifndef CAP_MAX
#define CAP_MAX ((size_t)1 << 30)
#endif
#define SCAP(s) ((ssize_t_)(s)->m_capacity)
#define WF(s) ((s)->m_capacity >= 1 && (s)->m_capacity <= CAP_MAX && (s)->m_size <= (s)->m_capacity && 0 <= (s)->m_pos && (s)->m_pos < SCAP(s))
#define PHYS(pos,k,cap) (((pos)+(ssize_t_)(k)) >= (ssize_t_)(cap) ? ((pos)+(ssize_t_)(k)) - (ssize_t_)(cap) : ((pos)+(ssize_t_)(k)))
size_t g_k; /* ghost index */

ssize_t_ modCap(const struct RB *self, ssize_t_ index)
__CPROVER_requires(__CPROVER_r_ok(self, sizeof(*self)))
__CPROVER_requires(self->m_capacity >= 1 && self->m_capacity <= CAP_MAX)
__CPROVER_requires(-SCAP(self) <= index && index < 2*SCAP(self))
__CPROVER_ensures(__CPROVER_return_value == (index < 0 ? index + SCAP(self) : (index >= SCAP(self) ? index - SCAP(self) : index)))
__CPROVER_assigns()
{
  ssize_t_ a = index;
  ssize_t_ b = (ssize_t_) self->m_capacity;
  return ((a % b) + b) % b;
}

size_t g_woff; /* ghost: watched byte offset inside the destination object */
void *verif_memcpy(void *dst, const void *src, size_t n)
__CPROVER_requires(n == 0 || (__CPROVER_w_ok(dst, n) && __CPROVER_r_ok(src, n)))
__CPROVER_requires(n == 0 || !__CPROVER_same_object(dst, src))
__CPROVER_assigns(n > 0: __CPROVER_object_upto(dst, n))
__CPROVER_ensures(__CPROVER_return_value == dst)
__CPROVER_ensures((n > 0 && g_woff >= __CPROVER_POINTER_OFFSET(dst) && g_woff - __CPROVER_POINTER_OFFSET(dst) < n) ==>
   ((const char*)dst)[g_woff - __CPROVER_POINTER_OFFSET(dst)] == ((const char*)src)[g_woff - __CPROVER_POINTER_OFFSET(dst)])
;
static Elem *rb_alloc(size_t n) { return (Elem*)malloc(n * sizeof(Elem)); }
static Elem *rb_realloc(Elem *old, size_t n) { return (Elem*)realloc(old, n * sizeof(Elem)); }
static void rb_free(Elem *d) { free(d); }
static size_t min_sz(size_t a, size_t b) { return b < a ? b : a; }
void Elem_dtor(Elem *e) { }

static void silentCopy(struct RB *self, Elem *dst, size_t n) {
  size_t n1 = min_sz(n, self->m_capacity - self->m_pos);
  verif_memcpy(dst, self->m_data + self->m_pos, n1 * sizeof(Elem));
  size_t n2 = n - n1;
  verif_memcpy(dst + n1, self->m_data + modCap(self, self->m_pos + n1), n2 * sizeof(Elem));
}

void resize(struct RB *self, size_t newCapacity)
__CPROVER_requires(__CPROVER_is_fresh(self, sizeof(*self)) && WF(self))
__CPROVER_requires(__CPROVER_is_fresh(self->m_data, self->m_capacity * sizeof(Elem)))
__CPROVER_requires(newCapacity >= 1 && newCapacity <= CAP_MAX)
__CPROVER_requires(g_k < self->m_capacity)
__CPROVER_assigns(self->m_pos, self->m_size, self->m_capacity, self->m_data, __CPROVER_object_whole(self->m_data))
__CPROVER_frees(self->m_data)
__CPROVER_ensures(WF(self) && self->m_capacity == newCapacity)
__CPROVER_ensures(self->m_size == (__CPROVER_old(self->m_size) < newCapacity ? __CPROVER_old(self->m_size) : newCapacity))
__CPROVER_requires(g_woff / sizeof(Elem) == g_k)
__CPROVER_ensures(g_k < self->m_size ==>
    ((const char*)self->m_data)[PHYS(self->m_pos, g_k, self->m_capacity) * sizeof(Elem) + g_woff % sizeof(Elem)] ==
    __CPROVER_old(((const char*)self->m_data)[PHYS(self->m_pos, g_k, self->m_capacity) * sizeof(Elem) + g_woff % sizeof(Elem)]))
{
  if (newCapacity == self->m_capacity) return;
  ssize_t_ lastIndex = modCap(self, self->m_pos + (ssize_t_)self->m_size - 1);
  if (self->m_pos <= lastIndex && (size_t)lastIndex < newCapacity) {
    self->m_data = rb_realloc(self->m_data, newCapacity);
  } else if (newCapacity < self->m_capacity) {
    Elem *newData = rb_alloc(newCapacity);
    size_t copyCount = min_sz(self->m_size, newCapacity);
    size_t deleteCount = self->m_size - copyCount;
    silentCopy(self, newData, copyCount);
    for (size_t i = 0; i < deleteCount; ++i)
      __CPROVER_assigns(i)
      __CPROVER_loop_invariant(i <= deleteCount)
      __CPROVER_decreases(deleteCount - i)
    {
      Elem_dtor(&self->m_data[copyCount + i]);
    }
    rb_free(self->m_data);
    self->m_data = newData;
    self->m_size = copyCount;
    self->m_pos = 0;
  } else {
    Elem *newData = rb_alloc(newCapacity);
    silentCopy(self, newData, self->m_size);
    rb_free(self->m_data);
    self->m_data = newData;
    self->m_pos = 0;
  }
  self->m_capacity = newCapacity;
}
void harness(void){ struct RB *rb; size_t n; resize(rb, n); }
